//! Compile-fail witnesses (DESIGN.md §2.4).  Nothing here is executed: every block is either
//! `compile_fail,E....` (must be rejected by the compiler with exactly that error) or its `no_run`
//! twin, which differs only in the offending line and must compile.  Run with
//! `cargo +nightly test --doc --offline` (error codes are only honoured on nightly).

/// C05: the key of an entry handed out by `iter_mut` cannot be written through.
/// ```compile_fail,E0594
/// let mut m: micromap::Map<u8, u8, 4> = micromap::Map::new();
/// m.insert(1, 1);
/// for (k, v) in m.iter_mut() { *v = 2; *k = 2; }
/// ```
/// ```no_run
/// let mut m: micromap::Map<u8, u8, 4> = micromap::Map::new();
/// m.insert(1, 1);
/// for (k, v) in m.iter_mut() { *v = 2; let _ = *k; }
/// ```
pub struct W01KeyImmutableInIterMut;

/// C11 / C02: the map cannot be touched while an `Entry` is alive (the recorded index rests on it).
/// ```compile_fail,E0502
/// let mut m: micromap::Map<u8, u8, 4> = micromap::Map::new();
/// let e = m.entry(1);
/// let _ = m.len();
/// drop(e);
/// ```
/// ```no_run
/// let mut m: micromap::Map<u8, u8, 4> = micromap::Map::new();
/// let e = m.entry(1);
/// drop(e);
/// let _ = m.len();
/// ```
pub struct W02EntryBorrowsMapExclusively;

/// C11 / C02: an `OccupiedEntry` is consumed by `remove` (its index is dead afterwards).
/// ```compile_fail,E0382
/// let mut m: micromap::Map<u8, u8, 4> = micromap::Map::new();
/// m.insert(1, 1);
/// if let micromap::Entry::Occupied(o) = m.entry(1) { let _ = o.remove(); let _ = o.get(); }
/// ```
/// ```no_run
/// let mut m: micromap::Map<u8, u8, 4> = micromap::Map::new();
/// m.insert(1, 1);
/// if let micromap::Entry::Occupied(o) = m.entry(1) { let _ = o.get(); let _ = o.remove(); }
/// ```
pub struct W03OccupiedEntryConsumedByRemove;

/// C11 / C02: ... and by `remove_entry`.
/// ```compile_fail,E0382
/// let mut m: micromap::Map<u8, u8, 4> = micromap::Map::new();
/// m.insert(1, 1);
/// if let micromap::Entry::Occupied(o) = m.entry(1) { let _ = o.remove_entry(); let _ = o.key(); }
/// ```
/// ```no_run
/// let mut m: micromap::Map<u8, u8, 4> = micromap::Map::new();
/// m.insert(1, 1);
/// if let micromap::Entry::Occupied(o) = m.entry(1) { let _ = o.key(); let _ = o.remove_entry(); }
/// ```
pub struct W04OccupiedEntryConsumedByRemoveEntry;

/// C10: the map cannot be used while a `Drain` is alive.
/// ```compile_fail,E0499
/// let mut m: micromap::Map<u8, u8, 4> = micromap::Map::new();
/// let d = m.drain();
/// m.insert(1, 1);
/// drop(d);
/// ```
/// ```no_run
/// let mut m: micromap::Map<u8, u8, 4> = micromap::Map::new();
/// let d = m.drain();
/// drop(d);
/// m.insert(1, 1);
/// ```
pub struct W05DrainBorrowsMapExclusively;

/// C09: the map cannot be mutated while a borrowing iterator is alive.
/// ```compile_fail,E0502
/// let mut m: micromap::Map<u8, u8, 4> = micromap::Map::new();
/// let it = m.iter();
/// m.insert(1, 1);
/// let _ = it.count();
/// ```
/// ```no_run
/// let mut m: micromap::Map<u8, u8, 4> = micromap::Map::new();
/// let it = m.iter();
/// let _ = it.count();
/// m.insert(1, 1);
/// ```
pub struct W06IterBorrowsMap;

/// C13: the references returned by `get_disjoint_mut` keep the map exclusively borrowed.
/// ```compile_fail,E0499
/// let mut m: micromap::Map<u8, u8, 4> = micromap::Map::new();
/// m.insert(1, 1);
/// let r = m.get_disjoint_mut([&1u8]);
/// let _ = m.get_mut(&1);
/// drop(r);
/// ```
/// ```no_run
/// let mut m: micromap::Map<u8, u8, 4> = micromap::Map::new();
/// m.insert(1, 1);
/// let r = m.get_disjoint_mut([&1u8]);
/// drop(r);
/// let _ = m.get_mut(&1);
/// ```
pub struct W07DisjointRefsBorrowMapExclusively;

/// C18 / C03: the unchecked insertion cannot be reached from safe code.
/// ```compile_fail,E0133
/// let mut m: micromap::Map<u8, u8, 4> = micromap::Map::new();
/// let _ = m.insert_unchecked(1, 1);
/// ```
/// ```no_run
/// let mut m: micromap::Map<u8, u8, 4> = micromap::Map::new();
/// let _ = unsafe { m.insert_unchecked(1, 1) };
/// ```
pub struct W08InsertUncheckedIsUnsafe;

/// C18 / C13: nor can the unchecked disjoint lookup.
/// ```compile_fail,E0133
/// let mut m: micromap::Map<u8, u8, 4> = micromap::Map::new();
/// let _ = m.get_disjoint_unchecked_mut([&1u8, &2u8]);
/// ```
/// ```no_run
/// let mut m: micromap::Map<u8, u8, 4> = micromap::Map::new();
/// let _ = unsafe { m.get_disjoint_unchecked_mut([&1u8, &2u8]) };
/// ```
pub struct W09DisjointUncheckedIsUnsafe;

/// C05: `values_mut` hands out values only; `keys()` hands out shared references.
/// ```compile_fail,E0594
/// let mut m: micromap::Map<u8, u8, 4> = micromap::Map::new();
/// m.insert(1, 1);
/// for k in m.keys() { *k = 2; }
/// ```
/// ```no_run
/// let mut m: micromap::Map<u8, u8, 4> = micromap::Map::new();
/// m.insert(1, 1);
/// for v in m.values_mut() { *v = 2; }
/// ```
pub struct W10KeysAreShared;

/// C05 / C12: the key of an occupied entry is only available by shared reference.
/// ```compile_fail,E0594
/// let mut m: micromap::Map<u8, u8, 4> = micromap::Map::new();
/// m.insert(1, 1);
/// if let micromap::Entry::Occupied(o) = m.entry(1) { *o.key() = 2; }
/// ```
/// ```no_run
/// let mut m: micromap::Map<u8, u8, 4> = micromap::Map::new();
/// m.insert(1, 1);
/// if let micromap::Entry::Occupied(mut o) = m.entry(1) { *o.get_mut() = 2; }
/// ```
pub struct W11OccupiedKeyIsShared;

/// C07 / C05: elements of a `Set` are only available by shared reference.
/// ```compile_fail,E0594
/// let mut s: micromap::Set<u8, 4> = micromap::Set::new();
/// s.insert(1);
/// for x in s.iter() { *x = 2; }
/// ```
/// ```no_run
/// let mut s: micromap::Set<u8, 4> = micromap::Set::new();
/// s.insert(1);
/// for x in s.iter() { let _ = *x; }
/// ```
pub struct W12SetElementsAreShared;
