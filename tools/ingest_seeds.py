#!/usr/bin/env python3
"""Ingest a round of seeded changes delivered by sub-agents into /verif/seeded/.

usage: ingest_seeds.py <delivery root> <result dir> [--update]
  <delivery root>/<Cxx>/out/<k>/{patch.diff,demo.rs,notes.md}   (notes.md: line 1 summary, line 2 `needs: ..`,
                                                                  line 3 `fails-in: ..`)
  <result dir>/<Cxx>_<k>.confirm.json / .checks.json             (tools/seedcheck.py confirm / checks)
Only confirmed seeds are kept.  Each gets the next free number of its property (seeded/Cxx-<n>); a file
seeded/<id>/origin records where it came from, so that a second run (--update) refreshes the check results of the
same seed instead of adding it again."""
import json
import os
import re
import shutil
import sys

HERE = os.path.dirname(os.path.dirname(os.path.abspath(__file__)))
DST = os.path.join(HERE, 'seeded')


def load(p):
    t = open(p).read()
    return json.loads(t[t.index('{'):])


def main():
    root, res = sys.argv[1], sys.argv[2]
    existing = {}
    for n in os.listdir(DST):
        o = os.path.join(DST, n, 'origin')
        if os.path.exists(o):
            existing[open(o).read().strip()] = n
    for prop in sorted(os.listdir(root)):
        if not re.fullmatch(r'C\d\d', prop):
            continue
        for k in sorted(os.listdir(os.path.join(root, prop, 'out'))):
            src = os.path.join(root, prop, 'out', k)
            name = '%s_%s' % (prop, k)
            cf, kf = os.path.join(res, name + '.confirm.json'), os.path.join(res, name + '.checks.json')
            if not (os.path.exists(os.path.join(src, 'patch.diff')) and os.path.exists(cf)):
                continue
            try:
                conf = load(cf)
            except Exception:
                print(name, 'confirmation unreadable')
                continue
            if not conf.get('confirmed'):
                print(name, 'NOT confirmed')
                continue
            origin = '%s:%s/%s' % (os.path.basename(root.rstrip('/')), prop, k)
            if origin in existing:
                sid = existing[origin]
            else:
                nums = [int(n.split('-')[1]) for n in os.listdir(DST) if n.startswith(prop + '-')]
                sid = '%s-%d' % (prop, max(nums + [0]) + 1)
            d = os.path.join(DST, sid)
            os.makedirs(d, exist_ok=True)
            for f in ('patch.diff', 'demo.rs', 'notes.md'):
                if os.path.exists(os.path.join(src, f)):
                    shutil.copy(os.path.join(src, f), os.path.join(d, f))
            open(os.path.join(d, 'origin'), 'w').write(origin + '\n')
            notes = open(os.path.join(src, 'notes.md')).read().splitlines() if os.path.exists(os.path.join(src, 'notes.md')) else []
            change = (notes[0] if notes else '').strip().lstrip('# ').strip()
            needs = ''
            for l in notes[1:6]:
                if l.lower().startswith('needs:'):
                    needs = l[6:].strip()
            checks = {}
            if os.path.exists(kf):
                try:
                    checks = load(kf)
                except Exception:
                    checks = {}
            fired = sorted(p for p, v in checks.items() if isinstance(v, dict) and v.get('fired'))
            profile = 'dev and release' if not conf['demo_patched']['dev'] else 'release only (debug assertions hide it)'
            if conf['demo_patched']['release'] and not conf['demo_patched']['dev']:
                profile = 'dev only (the release profile compiles the difference away)'
            if conf.get('demo_features'):
                profile += '; needs --features ' + conf['demo_features']
            meta = {
                'breaks_property': prop,
                'change': change,
                'needs_to_manifest': needs,
                'demo_fails_in': profile,
                'written_by': 'independent sub-agent given only the property text and a scratch worktree',
                'confirmed_here': {
                    'how': 'tools/seedcheck.py confirm: scratch worktree of /repo HEAD; cargo build --offline (dev, release, '
                           '--features std, --features serde); cargo test --offline --workspace (and --release) unedited; '
                           'demo.rs as tests/seed_demo.rs with and without the patch, dev and release',
                    'patch_applies': conf.get('applies'), 'builds': conf.get('builds'),
                    'existing_suite_passes': conf.get('suite_passes'), 'existing_suite_passes_release': conf.get('suite_passes_release'),
                    'demo_passes_unpatched': conf.get('demo_clean'), 'demo_passes_patched': conf.get('demo_patched'),
                },
                'checks_that_fire': fired,
                'caught_by_own_property_check': prop in fired,
                'first_reports': {p: checks[p].get('reports', [])[:2] for p in fired[:4]},
            }
            json.dump(meta, open(os.path.join(d, 'meta.json'), 'w'), indent=1)
            print('%-8s <- %-14s %s | fired: %s' % (sid, origin, 'own' if prop in fired else 'OWN-MISSED', ' '.join(fired)))


if __name__ == '__main__':
    main()
