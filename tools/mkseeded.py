#!/usr/bin/env python3
"""Populate /verif/seeded/<id>/ from the deliveries of the seeding sub-agents (/tmp/seed/out) and the
confirmation / check results (/tmp/seed/res2): patch.diff, demo.rs, notes.md (the author's own notes)
and meta.json.  Only seeds whose confirmation succeeded are kept."""
import json
import os
import shutil
import sys

OUT = '/tmp/seed/out'
RES = sys.argv[1] if len(sys.argv) > 1 else '/tmp/seed/res2'
DST = os.path.join(os.path.dirname(os.path.dirname(os.path.abspath(__file__))), 'seeded')

NEEDS = {
    'C01/1': ('checked_insert on a FULL map replaces the stored key object', 'full container + checked_insert of a present key + keys that compare equal but are distinguishable'),
    'C01/2': ('insert/insert_key_value append through the unchecked item_write (bounds check only a debug_assert)', 'release build + full map (or N = 0) + absent key'),
    'C02/1': ('retain keeps len in a local and writes it back after the loop', 'a predicate (or element Drop) that panics after an earlier removal in the same call'),
    'C02/2': ('Drain::drop guarded by needs_drop::<V>() instead of the pair type', 'key type with a destructor, value type without, drain dropped before exhaustion'),
    'C03/1': ('Set::replace goes through insert_i (unchecked core)', 'release build + full Set + replace of an absent value'),
    'C03/2': ('VacantEntry::insert bumps len before the bounds-checked write', 'full map + new key through the entry API + caller that survives the panic'),
    'C04/1': ('remove_index_drop fast path drops the last slot in place before len -= 1', 'retain rejects the element in the last live slot and its Drop panics'),
    'C04/2': ('VacantEntry::insert_with claims the slot (len += 1) before calling the closure', 'vacant entry + panicking or_insert_with / or_insert_with_key closure'),
    'C05/1': ('insert_ii: len += 1 moved before the bounds-checked write', 'release build + full container + new key + caught panic'),
    'C05/2': ('VacantEntry::insert appends directly with item_write (no rescan, debug_assert only)', 'release build + full map + new key through the entry API'),
    'C07/1': ('retain hoists len into a local, helper no longer touches self.len', 'retain predicate / element Drop panics after at least one rejection, set used afterwards'),
    'C07/2': ('Extend<T> takes only the first N items of the source', 'source longer than N whose first N items contain repeats / existing members'),
    'C08/1': ('Intersection::fold rewritten with filter_map(other.get): yields the RIGHT operand\'s elements', 'consumption through fold/for_each/count + keys whose Eq ignores a field (or address comparison)'),
    'C08/2': ('DifferenceRef::size_hint lower bound with swapped saturating_sub operands', 'right set larger than what remains on the left; size_hint inspected'),
    'C09/1': ('Iter::nth override that returns None without exhausting on overshoot', 'nth(n) / skip with n > remaining, then further use of the iterator'),
    'C09/2': ('ValuesMut::fold override via chunks_exact_mut(2) skips an odd trailing element', 'odd number of remaining values consumed through internal iteration'),
    'C10/1': ('IntoIter::fold override resets len only after the loop', 'into_iter consumed by fold/for_each with a closure that panics part-way, droppable payload'),
    'C10/2': ('Drain::nth override delegates to slice::IterMut::nth: skipped entries leak', 'drain advanced with nth(n>=1)/skip/step_by, payloads owning resources'),
    'C11/1': ('OccupiedEntry::remove reads only the value: the stored key leaks', 'key type with Drop, removal through OccupiedEntry::remove'),
    'C11/2': ('VacantEntry::insert calls insert_i (unchecked core)', 'release build + full map + entry(k).or_insert on an absent key'),
    'C12/1': ('insert_ii_for_full always replaces the whole pair', 'full map + checked_insert with an equal-but-distinguishable key'),
    'C12/2': ('Set::insert implemented through Set::replace', 'Set whose element Eq ignores an observable part'),
    'C13/1': ('overlap pre-check compares only neighbouring requests', 'three or more requests with a non-adjacent repeat of a present key'),
    'C13/2': ('get_disjoint_unchecked_mut via raw pointers + assert! became debug_assert!', 'release build + duplicate present key'),
    'C14/1': ('Map::eq slot-by-slot fast path: values of keys in different slots never compared', 'same keys, one key in different slots, different value on it'),
    'C14/2': ('Set::eq = is_subset && is_superset (both say self ⊆ other), length test gone', 'left operand a strict subset of the right'),
    'C15/1': ('Set::clone fast path ptr::read(self) when !needs_drop::<T>()', 'element type without drop glue but with an observable hand-written Clone'),
    'C15/2': ('Map::clone as a for loop doing m.len += 1 before the element is written', 'K::clone / V::clone panics at any index'),
    'C16/1': ('From<[(K,V);N]> loops over insert_i(k, v, true)', 'array with a repeated key + distinguishable equal keys'),
    'C16/2': ('Extend<&T> takes only N - len items', 'by-reference extend, source longer than the free room with repeats/overlap'),
    'C17/1': ('checked_insert = (len < N || contains_key) then insert_unchecked', 'release build + full map + key whose == answers differently in the two scans'),
    'C17/2': ('get_disjoint_unchecked_mut looks each key up independently and hands out &mut through a raw pointer', 'non-transitive == : two different requests matching one stored key'),
    'C18/1': ('insert_unchecked passes update_key = true', 're-insert of a present key + distinguishable equal keys'),
    'C18/2': ('insert_i clean-up drops the redundant new key inside the moved-out window', 'present key whose Drop panics (caught)'),
    'C20/1': ('visit_map refuses len >= N up front', 'number of entries equal to the capacity of the target'),
    'C20/2': ('visit_seq reads exactly size_hint().unwrap_or(0) elements', 'a format that gives no size hint'),
}


def main():
    os.makedirs(DST, exist_ok=True)
    rows = []
    for key in sorted(NEEDS):
        prop, n = key.split('/')
        name = '%s_%s' % (prop, n)
        src = os.path.join(OUT, prop, n)
        cf = os.path.join(RES, name + '.confirm.json')
        kf = os.path.join(RES, name + '.checks.json')
        if not (os.path.exists(src) and os.path.exists(cf)):
            rows.append((key, 'no confirmation yet'))
            continue
        try:
            conf = json.load(open(cf))
        except Exception:
            rows.append((key, 'confirmation unreadable'))
            continue
        if not conf.get('confirmed'):
            rows.append((key, 'NOT confirmed: %s' % {k: conf.get(k) for k in ('applies', 'builds', 'suite_passes', 'demo_clean', 'demo_patched')}))
            continue
        checks = {}
        if os.path.exists(kf):
            try:
                checks = json.load(open(kf))
            except Exception:
                checks = {}
        d = os.path.join(DST, '%s-%s' % (prop, n))
        os.makedirs(d, exist_ok=True)
        for f in ('patch.diff', 'demo.rs', 'notes.md'):
            if os.path.exists(os.path.join(src, f)):
                shutil.copy(os.path.join(src, f), os.path.join(d, f))
        fired = sorted(p for p, v in checks.items() if isinstance(v, dict) and v.get('fired'))
        profile = 'dev and release' if not conf['demo_patched']['dev'] else 'release only (debug assertions hide it)'
        if prop == 'C20':
            profile += '; needs --features serde'
        meta = {
            'breaks_property': prop,
            'change': NEEDS[key][0],
            'needs_to_manifest': NEEDS[key][1],
            'demo_fails_in': profile,
            'written_by': 'independent sub-agent given only the property text and a scratch worktree',
            'confirmed_here': {
                'how': 'tools/seedcheck.py confirm: scratch worktree of /repo HEAD; cargo build --offline (dev, release, '
                       '--features std, --features serde); cargo test --offline --workspace (and --release) unedited; '
                       'demo.rs as tests/seed_demo.rs with and without the patch, dev and release',
                'patch_applies': conf.get('applies'), 'builds': conf.get('builds'),
                'existing_suite_passes': conf.get('suite_passes'), 'existing_suite_passes_release': conf.get('suite_passes_release'),
                'demo_passes_unpatched': conf.get('demo_clean'), 'demo_passes_patched': conf.get('demo_patched'),
            },
            'checks_that_fire': fired,
            'caught_by_own_property_check': prop in fired,
            'first_reports': {p: checks[p].get('reports', [])[:2] for p in fired[:4]},
        }
        json.dump(meta, open(os.path.join(d, 'meta.json'), 'w'), indent=1)
        rows.append((key, 'kept; fired: %s' % ', '.join(fired)))
    for r in rows:
        print('%-7s %s' % r)


if __name__ == '__main__':
    main()
