#!/usr/bin/env python3
"""Populate /verif/seeded/<id>/ from the deliveries of the seeding sub-agents (/tmp/seed/out) and the
confirmation / check results (/tmp/seed/res2): patch.diff, demo.rs, notes.md (the author's own notes)
and meta.json.  Only seeds whose confirmation succeeded are kept."""
import json
import os
import shutil
import sys

OUT = '/tmp/seed/out'
RES = sys.argv[1] if len(sys.argv) > 1 else '/tmp/seed/res2'
DST = os.path.join(os.path.dirname(os.path.dirname(os.path.abspath(__file__))), 'seeded')

NEEDS = {
    'C01/1': ('checked_insert on a FULL map replaces the stored key object', 'full container + checked_insert of a present key + keys that compare equal but are distinguishable'),
    'C01/2': ('insert/insert_key_value append through the unchecked item_write (bounds check only a debug_assert)', 'release build + full map (or N = 0) + absent key'),
    'C02/1': ('retain keeps len in a local and writes it back after the loop', 'a predicate (or element Drop) that panics after an earlier removal in the same call'),
    'C02/2': ('Drain::drop guarded by needs_drop::<V>() instead of the pair type', 'key type with a destructor, value type without, drain dropped before exhaustion'),
    'C03/1': ('Set::replace goes through insert_i (unchecked core)', 'release build + full Set + replace of an absent value'),
    'C03/2': ('VacantEntry::insert bumps len before the bounds-checked write', 'full map + new key through the entry API + caller that survives the panic'),
    'C04/1': ('remove_index_drop fast path drops the last slot in place before len -= 1', 'retain rejects the element in the last live slot and its Drop panics'),
    'C04/2': ('VacantEntry::insert_with claims the slot (len += 1) before calling the closure', 'vacant entry + panicking or_insert_with / or_insert_with_key closure'),
    'C05/1': ('insert_ii: len += 1 moved before the bounds-checked write', 'release build + full container + new key + caught panic'),
    'C05/2': ('VacantEntry::insert appends directly with item_write (no rescan, debug_assert only)', 'release build + full map + new key through the entry API'),
    'C07/1': ('retain hoists len into a local, helper no longer touches self.len', 'retain predicate / element Drop panics after at least one rejection, set used afterwards'),
    'C07/2': ('Extend<T> takes only the first N items of the source', 'source longer than N whose first N items contain repeats / existing members'),
    'C08/1': ('Intersection::fold rewritten with filter_map(other.get): yields the RIGHT operand\'s elements', 'consumption through fold/for_each/count + keys whose Eq ignores a field (or address comparison)'),
    'C08/2': ('DifferenceRef::size_hint lower bound with swapped saturating_sub operands', 'right set larger than what remains on the left; size_hint inspected'),
    'C09/1': ('Iter::nth override that returns None without exhausting on overshoot', 'nth(n) / skip with n > remaining, then further use of the iterator'),
    'C09/2': ('ValuesMut::fold override via chunks_exact_mut(2) skips an odd trailing element', 'odd number of remaining values consumed through internal iteration'),
    'C10/1': ('IntoIter::fold override resets len only after the loop', 'into_iter consumed by fold/for_each with a closure that panics part-way, droppable payload'),
    'C10/2': ('Drain::nth override delegates to slice::IterMut::nth: skipped entries leak', 'drain advanced with nth(n>=1)/skip/step_by, payloads owning resources'),
    'C11/1': ('OccupiedEntry::remove reads only the value: the stored key leaks', 'key type with Drop, removal through OccupiedEntry::remove'),
    'C11/2': ('VacantEntry::insert calls insert_i (unchecked core)', 'release build + full map + entry(k).or_insert on an absent key'),
    'C12/1': ('insert_ii_for_full always replaces the whole pair', 'full map + checked_insert with an equal-but-distinguishable key'),
    'C12/2': ('Set::insert implemented through Set::replace', 'Set whose element Eq ignores an observable part'),
    'C13/1': ('overlap pre-check compares only neighbouring requests', 'three or more requests with a non-adjacent repeat of a present key'),
    'C13/2': ('get_disjoint_unchecked_mut via raw pointers + assert! became debug_assert!', 'release build + duplicate present key'),
    'C14/1': ('Map::eq slot-by-slot fast path: values of keys in different slots never compared', 'same keys, one key in different slots, different value on it'),
    'C14/2': ('Set::eq = is_subset && is_superset (both say self ⊆ other), length test gone', 'left operand a strict subset of the right'),
    'C15/1': ('Set::clone fast path ptr::read(self) when !needs_drop::<T>()', 'element type without drop glue but with an observable hand-written Clone'),
    'C15/2': ('Map::clone as a for loop doing m.len += 1 before the element is written', 'K::clone / V::clone panics at any index'),
    'C16/1': ('From<[(K,V);N]> loops over insert_i(k, v, true)', 'array with a repeated key + distinguishable equal keys'),
    'C16/2': ('Extend<&T> takes only N - len items', 'by-reference extend, source longer than the free room with repeats/overlap'),
    'C17/1': ('checked_insert = (len < N || contains_key) then insert_unchecked', 'release build + full map + key whose == answers differently in the two scans'),
    'C17/2': ('get_disjoint_unchecked_mut looks each key up independently and hands out &mut through a raw pointer', 'non-transitive == : two different requests matching one stored key'),
    'C18/1': ('insert_unchecked passes update_key = true', 're-insert of a present key + distinguishable equal keys'),
    'C18/2': ('insert_i clean-up drops the redundant new key inside the moved-out window', 'present key whose Drop panics (caught)'),
    'C20/1': ('visit_map refuses len >= N up front', 'number of entries equal to the capacity of the target'),
    'C20/2': ('visit_seq reads exactly size_hint().unwrap_or(0) elements', 'a format that gives no size hint'),
}


NEEDS2 = {
    'C01/1': ('remove/remove_entry recover the slot index with ptr::offset_from (no enumerate)', 'a zero-sized (K, V) pair type: removing a present key panics'),
    'C01/2': ('drain() no longer zeroes len; Drain::drop does (Drain holds &mut usize)', 'mem::forget of a partially consumed drain (or a destructor panicking in Drain::drop)'),
    'C02/1': ('new Map::clone_from override that clone_from()s into slots >= self.len', 'clone_from with a longer source after the target had been longer earlier, droppable K/V'),
    'C02/2': ('len reset moved from drain() into Drain::drop', 'partial consumption then mem::forget, or a panicking destructor inside Drain::drop'),
    'C03/1': ('insert_ii: self.pairs[i] = MaybeUninit::new((k, v)) -- the pair is wrapped before the bounds check', 'release build + full container + new key: the rejected key/value are never destroyed'),
    'C03/2': ('Set::insert via checked_insert, folding the refused case into `false`', 'full Set (or N = 0) + new value: silently dropped instead of panicking'),
    'C04/1': ('Set::from([T; N]) reads items out of the array with ptr::read and forgets the array afterwards', 'an Eq that panics after at least one insert: items owned twice during unwinding'),
    'C04/2': ('IntoValues::next reads the value, drops the key in place, then lowers len', 'into_values() on a map whose key destructor panics'),
    'C05/1': ('Map::clone_from override overwriting live keys in place', 'same keys in different slot order and a Clone that panics part-way: duplicate keys remain'),
    'C05/2': ('FromIterator trusts size_hint() and uses insert_unchecked when upper <= N', 'release build + iterator under-reporting its upper bound with more than N distinct keys'),
    'C06/1': ('get_disjoint_unchecked_mut sorts with the stable sort_by_key (alloc) + extern crate alloc', '171 or more of the requested keys found: the stable sort allocates its scratch buffer'),
    'C06/2': ('Display for Map renders into a String when the format spec has a width', 'formatting with a width ({:>30})'),
    'C08/1': ('is_subset resumes the scan of `other` instead of restarting it (subsequence test)', 'common elements in a different relative order in the two operands'),
    'C08/2': ('Difference keeps its size_hint lower bound from construction time', 'partially consumed iterator with |left| > |right| and a common element behind the consumed prefix'),
    'C09/1': ('Iter::any / Iter::all overrides run on a snapshot and never advance the iterator', 'the same iter() used again after any()/all()'),
    'C09/2': ('Values::fold override implemented with rfold', 'internal iteration (for_each, fold, last) over values()'),
    'C10/1': ('IntoIter::last override returns slot 0 but shortens the map at the end', 'last() on into_iter() with at least two droppable pairs'),
    'C10/2': ('drain() leaves len alone; Drain::drop resets it', 'mem::forget of a drain after taking items; destructor panicking in Drain::drop'),
    'C11/1': ('or_insert_with_key evaluates default(self.key()) before the match', 'occupied entry + closure with an observable effect'),
    'C11/2': ('entry() borrows the free slot &mut pairs[len] for the VacantEntry', 'absent key on a full map (or N = 0): entry() itself panics'),
    'C12/1': ('insert_ii replaces the whole pair when !needs_drop::<K>()', 'key type without drop glue whose Eq ignores a field, second insert of an equal key'),
    'C12/2': ('insert_key_value on a full map goes through get_mut + replace of the value only', 'len == N and an equal-but-distinguishable key'),
    'C13/1': ('overlap pre-check skipped when size_of::<V>() == 0', 'zero-sized value type + a repeated present key'),
    'C13/2': ('worker splits &mut pairs[..=last] instead of [..len]', 'N == 0 and J >= 2: spurious panic'),
    'C14/1': ('explicit PartialEq::ne that ignores keys missing from `other`', '!= on equal-length maps with different key sets'),
    'C14/2': ('identity short-circuit ptr::addr_eq(self, other) in Map::eq', 'a value that is not equal to itself (NaN) compared with its own container'),
    'C15/1': ('Map::clone_from override whose zip order discards one fresh clone and clones it again', 'clone_from into a shorter destination, clone-counting element type'),
    'C15/2': ('Map::clone fast path for a full map via array Clone + transmute_copy', 'len == N >= 1 and droppable K/V: elements destroyed twice'),
    'C16/1': ('From<[(K,V);N]> adopts the array as storage and folds repeats with swap-remove', 'two different repeated keys (or one key three times): wrong value / key object kept'),
    'C16/2': ('Extend<T> de-duplicates runs of equal adjacent items before inserting', 'adjacent equal-but-distinguishable items: the last object of a run is stored, not the first'),
    'C18/1': ('insert_i: capacity debug_assert moved in front of the scan', 'debug build + full map + present key: insert_unchecked panics inside its contract'),
    'C18/2': ('get_disjoint_unchecked_mut tracks resolved requests in a u64 bit mask', 'more than 64 pairwise different keys'),
    'C20/1': ('deserialize_in_place override merges into the old contents', 'deserialize_in_place into a non-empty target'),
    'C20/2': ('Serialize via collect_seq(self) also for Map', 'any self-describing format (a Map is emitted as a sequence of pairs)'),
    'C07/1': ('Map::remove (behind Set::remove) recovers the slot index with ptr::offset_from instead of enumerate()', 'a zero-sized element type: removing a present element panics / removes the wrong slot'),
    'C07/2': ('Set::retain first trims the rejected tail in a prelude, then runs Map::retain: the predicate is asked twice for some elements', 'a stateful (FnMut) predicate: elements are kept or removed against the answer the caller counts on'),
    'C17/1': ('get_disjoint_unchecked_mut: the on-stack hit list is written and read with get_unchecked(_mut)', 'a PartialEq that matches one request against several stored keys (more than J hits): write past the array'),
    'C17/2': ('Map::clear drops the live prefix with one drop_in_place on the slice and resets len afterwards', 'an element destructor that panics during clear(), panic caught: the map still covers destroyed slots'),
}


NEEDS3 = {
    'C01/1': ('checked_insert with room left passes update_key = true to insert_ii', 'present key re-inserted through checked_insert on a non-full map + equal-but-distinguishable keys'),
    'C01/2': ('Map::insert passes update_key = true to insert_ii', 'present key re-inserted + equal-but-distinguishable keys: the stored key object is replaced'),
    'C02/1': ('Map::clear resets len only after the destructor loop', 'a key or value destructor that panics during clear(), panic caught: double drop on Drop for Map'),
    'C02/2': ('Map::clone sets the clone\'s len before the copy loop', 'an element Clone that panics part-way: destructors run on slots that hold no element'),
    'C05/1': ('insert_i: the append test `target == self.len` became `target <= self.len`', 'insert_unchecked of a key that is already present: len grows although nothing was appended'),
    'C05/2': ('insert_i: the old pair is read out of slot self.len instead of the matched slot', 'insert_unchecked update of a present key after the map has shrunk: duplicate / resurrected keys'),
    'C07/1': ('Extend<T> for Set calls replace() instead of insert()', 'a repeat fed through extend + equal-but-distinguishable elements: the stored member is evicted'),
    'C07/2': ('Map::insert (behind Set::insert) passes update_key = true', 'an unsuccessful Set::insert + distinguishable equal elements: the refused argument becomes the member'),
    'C08/1': ('is_subset: the length shortcut `<=` became `<`', 'two sets of equal size where one is a subset of the other (e.g. equal sets): false instead of true'),
    'C08/2': ('DifferenceRef::fold: the two branches of the membership filter are swapped', 'internal iteration (fold / for_each / count via fold) over difference_ref'),
    'C09/1': ('insert_i: `target == self.len` became `target <= self.len`', 'insert_unchecked of a present key, then any borrowing iterator: one entry too many (a dead slot)'),
    'C09/2': ('Map::remove_entry scans pairs[..N] instead of pairs[..self.len]', 'remove_entry / Set::take of a key that was removed earlier and whose bits still sit in a dead slot'),
    'C10/1': ('Drain::drop calls assume_init_mut() instead of assume_init_drop()', 'a drain dropped before exhaustion with droppable payloads: the remaining elements leak'),
    'C10/2': ('IntoIter::count returns self.map.pairs.len() (the capacity) instead of self.map.len()', 'count() on into_iter() of a map that is not full'),
    'C11/1': ('VacantEntry::insert passes update_key = true to insert_ii', 'a key whose equality changes between entry() and insert (interior mutability): the stored key object is swapped'),
    'C11/2': ('insert_ii reports self.len instead of the matched slot in the found/keep-key arm', 'same scenario as C11-5: or_insert / VacantEntry::insert return a reference to slot len (dead or out of range)'),
    'C13/1': ('get_disjoint_unchecked_mut: the single-request shortcut tests N == 1 instead of J == 1', 'capacity-1 map and J >= 2 requests: only request 0 is answered'),
    'C13/2': ('get_disjoint_mut: the early return tests self.is_empty() instead of ks.is_empty()', 'J == 0 on a non-empty map: ks[..ks.len() - 1] underflows and panics'),
    'C16/1': ('Map::from_iter calls insert_key_value instead of insert', 'a source with a repeated key + distinguishable equal keys: the later key object is stored'),
    'C16/2': ('Extend<T> for Set goes through map.checked_insert', 'a source with more new elements than free room: the overflow is silently dropped instead of panicking'),
    'C03/1': ('Map::insert_key_value calls insert_i (the unchecked core, debug_assert only) instead of insert_ii', 'release build + full map + a new key through insert_key_value: no panic, write past the array'),
    'C03/2': ('Set::from_iter goes through map.checked_insert', 'collect()/from_iter of more than N distinct elements: silent truncation instead of a panic'),
    'C04/1': ('insert_i loses the `break` after the key match: the scan goes on while a bitwise copy of a live pair is held', 'insert_unchecked of a present key (not in the last slot) whose Eq panics on a later slot: double drop'),
    'C04/2': ('insert_i: the scan exit `i == self.len` became `i > self.len` (one dead slot is compared too)', 'remove the last entry, then insert_unchecked an equal key: a destroyed key is compared and its pair revived'),
    'C12/1': ('insert_i keep-key branch: k and old_k swapped', 'insert_unchecked with an equal-but-distinguishable key: the supplied key is stored, the original destroyed'),
    'C12/2': ('insert_ii_for_full: `if update_key` became `if !update_key`', 'FULL map + checked_insert with an equal-but-distinguishable key'),
    'C14/1': ('Map::eq: the per-entry condition `other.get(k) == Some(v)` became `other.get(k).is_some()`', 'two maps with the same keys that differ in one value compare equal'),
    'C14/2': ('insert_i key-found arm: `target = i` became `target = self.len`', 'insert_unchecked of a present key appends a duplicate: == is no longer reflexive / symmetric'),
    'C15/1': ('Map::clone zips with self.pairs.iter() (all N slots) instead of pairs[..len]', 'a container that is not full: clone() runs on dead / uninitialised slots (extra clone calls)'),
    'C15/2': ('Map::clone sets m.len = self.pairs.len() (the capacity)', 'a container that is not full: the clone claims N entries'),
    'C17/1': ('Map::get_mut searches the whole slot array pairs[..]', 'a key whose bits are left in a dead slot, or an always-true Eq on an emptied map: &mut V into a dead slot'),
    'C17/2': ('Map::clear: `for i in 0..len` became `for i in 1..len`', 'any non-empty clear() with droppable elements: slot 0 is never destroyed'),
    'C18/1': ('insert_i: the capacity debug_assert `target < N` became `i + 1 < N`', 'debug build + a new key into the last free slot: insert_unchecked panics within its contract'),
    'C18/2': ('insert_i: the scan exit `i == self.len` became `i > self.len`', 'remove the last pair, then insert_unchecked an equal key on the non-full map: Some(stale value) instead of None'),
    'C20/1': ('Map::serialize: `serialize_entry(k, v)?` became `.ok()`', 'an entry that fails to serialize mid-map is skipped silently and Ok is returned'),
    'C20/2': ('Set::serialize iterates &self.map and serializes the (&T, &()) item', 'any self-describing format: each element is written as the pair [elem, null]'),
}


NEEDS4 = {
    'C01/1': ('Map::contains_key fast path `if size_of_val(k) == 0 { return !self.is_empty() }`', 'probing a non-empty map of String / Vec keys with "" or &[]: contains_key says true for an absent key'),
    'C01/2': ('insert_ii append branch: `let last = N - 1; assert!(i <= last)` + unchecked item_write', 'release build + N == 0: N - 1 wraps, the insert is accepted and written past the (empty) array'),
    'C05/1': ('serde visit_map appends each decoded entry directly (slot write + len += 1) instead of calling insert()', 'deserialisation input with a repeated key: the decoded map yields the same key twice'),
    'C05/2': ('Map::retain as a one-pass partition that drops the rejected tail in one batch and lowers len afterwards', 'a rejected element whose Drop panics (caught): len stays stale, destroyed entries are yielded and dropped again'),
    'C08/1': ('Difference::fold / Intersection::fold return init early when the right operand is empty', 'A - {} consumed through fold / for_each / count: the closure is never called although next() yields all of A'),
    'C08/2': ('Union restructured into head + tail fields; fold nests them so that the tail is folded first', 'both halves non-empty and an order-sensitive consumer (fold collecting a sequence, last, reduce)'),
    'C10/1': ('IntoIter::nth override computes `old.checked_sub(n + 1)`: n + 1 is evaluated unguarded', 'nth(usize::MAX) / skip(usize::MAX): debug panics, release wraps and reads an out-of-range slot'),
    'C10/2': ('Drain::fold override via mem::take(&mut self.iter).fold(..)', 'the closure panics midway: the unvisited pairs are neither yielded nor dropped'),
    'C11/1': ('OccupiedEntry gains a key field holding the PROBE key; key() returns it instead of the stored key', 'equal-but-distinguishable keys: Entry::key() disagrees with get_key_value / remove_entry'),
    'C11/2': ('or_insert_with / or_insert_with_key call a new reserve() (assert len < N) before the closure', 'full map + absent key + side-effecting closure: the closure no longer runs before the capacity panic'),
    'C13/1': ('get_disjoint_unchecked_mut: the on-stack hit list stores (u8, u8): the slot index is cast to u8', 'a map with more than 256 entries, one requested key in slot >= 256: the answer is the value of another slot'),
    'C13/2': ('get_disjoint_mut fast path for exactly two keys stores the answers in slot order', 'two present keys requested in the opposite order of their slots: the two answers are swapped'),
    'C16/1': ('Map::from_iter in two phases: take(N) + insert_unchecked, then insert for the rest', 'a non-fused source whose first burst is shorter than N: it is polled again after its None'),
    'C16/2': ('Extend<&T> for Set as a loop with debug_assert!(self.contains(item)) after each insert', 'debug build + an element that is not equal to itself (NaN): extend by reference panics half-way'),
}


NEEDS5 = {
    'C01/1': ('Index/IndexMut: expect() became debug_assert!(is_some) + unwrap_unchecked', 'release build + indexing with an absent key: no panic, undefined behaviour'),
    'C01/2': ('Map::get fast path for N == 1 compares slot 0 without looking at len', 'capacity 1 + fill, empty (remove/clear/drain/retain), then get/index with the old key'),
    'C02/1': ('Drop for Map walks pairs[..len] as a pointer range (start != end)', 'zero-sized pair type with drop glue: no element is ever destroyed'),
    'C02/2': ('Drain::last override peeks the last slot with assume_init_read without advancing', 'drain().last() on droppable payloads: the returned pair is destroyed again by Drain::drop'),
    'C03/1': ('insert_ii appends through pairs.get_mut(i) and ignores the None case', 'release build + full container + new key: the pair is dropped silently, the reported index is N'),
    'C03/2': ('Extend<T> for Set asserts len() < N before every insert', 'a full set extended with elements it already holds: panics instead of being a no-op'),
    'C04/1': ('Drop for Map through a scope guard whose cursor advances after item_drop', 'an element whose Drop panics while the map is dropped: that element is destroyed twice'),
    'C04/2': ('&Set - &Set appends through a helper that bumps len before the clone is written', 'T::clone panics in `-`: the partially built result destroys an uninitialised slot'),
    'C05/1': ('OccupiedEntry::remove_entry hand-written swap-remove that never lowers len in the general branch', 'entry(k).remove_entry() on a key that is not in the last slot: the last pair is live twice'),
    'C05/2': ('Set::remove closes the gap with slot len instead of len - 1', 'removing a non-last element: a dead slot is copied into the hole, the real last element is lost'),
    'C06/1': ('Debug for IntoIter collects the pending pairs into a Vec (extern crate alloc)', 'formatting a non-empty by-value iterator: one allocator call'),
    'C06/2': ('&Set - &Set builds large results in a Box in debug builds', 'the - operator on a set type larger than 4 KiB in an unoptimised build'),
    'C07/1': ('Map::remove_entry (behind Set::take) pops the last pair before it searches', 'an element == that panics during the scan: the set silently loses its last element'),
    'C07/2': ('Map::get_key_value (behind Set::get) compares size_of_val before ==', 'lookup by an unsized borrowed form whose == does not preserve byte length (Path)'),
    'C08/1': ('the - operator inserts inside debug_assert!', 'release build: &a - &b is always empty'),
    'C08/2': ('is_superset = M <= N && other.is_subset(self)', 'argument of strictly larger capacity that is still a subset'),
    'C09/1': ('IterMut as a raw (ptr, end) cursor with byte-distance len', 'zero-sized (K, V): iter_mut/values_mut report length 0 and visit nothing'),
    'C09/2': ('Iter as slice + position; Clone::clone restarts at position 0', 'advance, clone, use the clone: consumed items come out again, len too large'),
    'C10/1': ('Drain::last override reads the final slot without removing it from the range', 'drain().last() on payloads with observable Drop: double drop'),
    'C10/2': ('IntoKeys/IntoValues::last return the last live slot (the FIRST item of the back-to-front walk)', 'at least two entries left, last() compared with a next() walk'),
    'C11/1': ('OccupiedEntry::remove_entry lowers len first; the tail test uses the new len', 'removing the pair in the second-to-last slot through the entry API: gap not closed, double drop'),
    'C11/2': ('Entry::and_modify runs the closure on a ptr::read scratch copy and writes it back', 'the closure panics on an occupied entry: the value is dropped twice, earlier writes lost'),
    'C12/1': ('Extend<T> for Set collects the batch first and swaps it with self when larger (small-to-large merge)', 'equal-but-distinguishable elements, batch with more distinct elements than the set, overlap'),
    'C12/2': ('serde visit_map: m.remove(&key) before m.insert(key, value)', 'serde feature, the same logical key twice in the input, distinguishable equal keys'),
    'C13/1': ('get_disjoint_unchecked_mut compares == only for requests whose size_of_val equals the stored key\'s', 'keys that compare equal but differ in byte length (PathBuf looked up through Path)'),
    'C13/2': ('overlap pre-check folded into assert!(ks[i+1..].iter().any(|k2| k != k2))', 'three or more keys with a repeated present key and a different key behind it'),
    'C14/1': ('Map::eq: new first branch for M < N keeps only other.iter().all(..)', 'left operand of larger capacity that is a strict superset of the right one'),
    'C14/2': ('Set::eq shortcut `if N == 0 || M == 0 { return self.is_empty() }`', 'Set<_, 0> compared with a non-empty set: true'),
    'C15/1': ('Map::clone as a two-cursor raw pointer loop (src != end), len published afterwards', 'zero-sized K and V: no element cloned, len copied'),
    'C15/2': ('Set::clone loops debug_assert!(set.map.push(item.clone(), ()))', 'release build: every clone of a non-empty set is empty'),
    'C16/1': ('Set::from_iter in two stages: insert until full, then only assert membership', 'a non-fused source: next() is called again after it answered None'),
    'C16/2': ('Extend<&T> = *self = self.iter().copied().chain(iter.copied()).collect()', 'the call unwinds part-way (overflow or panicking source): self is left unchanged'),
    'C17/1': ('Drop for Map through an unwinding guard that re-drops the panicking slot', 'an element whose Drop panics while a Map/Set/owning iterator is dropped'),
    'C17/2': ('Debug for IntoIter prints the whole slot array through slice_iter', 'formatting a partially consumed or non-full into_iter(): reads dead slots'),
    'C18/1': ('insert_i as a sentinel search (pair parked in pairs[len], scan without end test)', 'a key whose == is not reflexive (NaN): the scan runs into dead slots and out of bounds'),
    'C18/2': ('insert_unchecked: `if self.len >= N { unreachable_unchecked() }` in front of the core', 'full map + present key: inside the contract, now undefined behaviour'),
    'C20/1': ('Set visit_seq inserts inside debug_assert!(checked_insert(..).is_some())', 'release build with serde: every non-empty Set deserializes as empty'),
    'C20/2': ('Map visit_map returns Err unless access.size_hint() == Some(m.len()) after the loop', 'a deserializer whose size_hint() is None: every map is rejected'),
}

NEEDS6 = {
    'C19/1': ('Debug for Values takes f.precision() many pending values', 'a precision in the format spec ({:.1?}): entries silently dropped'),
    'C19/2': ('Debug for IntoIter lists pairs[..=len.saturating_sub(1)] reversed', 'an exhausted (or never filled) by-value iterator: slot 0 -- already yielded or uninitialised -- is shown'),
    'C19/3': ('Display for Map through debug_map().entries() and a Display-forwarding wrapper', '{:#} switches to the multi-line layout; width / precision applied to every key and value (text only)'),
    'C19/4': ('Debug for Intersection lists other.get(item) for the common elements', 'elements that compare equal but are distinguishable in Debug: the other operand\'s copies are shown'),
    'C19/5': ('Display for Set: the separator flag toggles instead of clearing', 'three or more elements: every odd-indexed separator from the third element on is dropped (text only)'),
    'C19/6': ('Display for Map zips the entries with once("").chain(once(", "))', 'three or more entries: everything from the third entry on is omitted'),
}


def main():
    os.makedirs(DST, exist_ok=True)
    rows = []
    rounds = [(NEEDS, OUT, RES, 0)]
    if len(sys.argv) > 2:
        rounds.append((NEEDS2, '/tmp/seed/out2', sys.argv[2], 2))
    if len(sys.argv) > 3:
        rounds.append((NEEDS3, '/tmp/seed/out3', sys.argv[3], 4))
    if len(sys.argv) > 4:
        rounds.append((NEEDS4, '/tmp/seed/out4', sys.argv[4], 6))
    if len(sys.argv) > 5:
        rounds.append((NEEDS5, '/tmp/seed/out5', sys.argv[5], 8))
    if len(sys.argv) > 6:
        rounds.append((NEEDS6, '/tmp/seed/out6', sys.argv[6], 0))
    for needs, OUTD, RESD, off in rounds:
        rows += one_round(needs, OUTD, RESD, off)
    for r in rows:
        print('%-9s %s' % r)


def one_round(NEEDS, OUT, RES, off):
    rows = []
    for key in sorted(NEEDS):
        prop, n = key.split('/')
        name = '%s_%s' % (prop, n)
        src = os.path.join(OUT, prop, n)
        cf = os.path.join(RES, name + '.confirm.json')
        kf = os.path.join(RES, name + '.checks.json')
        k0 = key
        key = '%s/%d' % (prop, int(n) + off)
        if not (os.path.exists(src) and os.path.exists(cf)):
            rows.append((key, 'no confirmation yet'))
            continue
        try:
            conf = json.load(open(cf))
        except Exception:
            rows.append((key, 'confirmation unreadable'))
            continue
        if not conf.get('confirmed'):
            rows.append((key, 'NOT confirmed: %s' % {k: conf.get(k) for k in ('applies', 'builds', 'suite_passes', 'demo_clean', 'demo_patched')}))
            continue
        checks = {}
        if os.path.exists(kf):
            try:
                checks = json.load(open(kf))
            except Exception:
                checks = {}
        d = os.path.join(DST, '%s-%d' % (prop, int(n) + off))
        os.makedirs(d, exist_ok=True)
        for f in ('patch.diff', 'demo.rs', 'notes.md'):
            if os.path.exists(os.path.join(src, f)):
                shutil.copy(os.path.join(src, f), os.path.join(d, f))
        fired = sorted(p for p, v in checks.items() if isinstance(v, dict) and v.get('fired'))
        profile = 'dev and release' if not conf['demo_patched']['dev'] else 'release only (debug assertions hide it)'
        if conf.get('demo_features'):
            profile += '; needs --features ' + conf['demo_features']
        meta = {
            'breaks_property': prop,
            'change': NEEDS[k0][0],
            'needs_to_manifest': NEEDS[k0][1],
            'demo_fails_in': profile,
            'written_by': 'independent sub-agent given only the property text and a scratch worktree',
            'confirmed_here': {
                'how': 'tools/seedcheck.py confirm: scratch worktree of /repo HEAD; cargo build --offline (dev, release, '
                       '--features std, --features serde); cargo test --offline --workspace (and --release) unedited; '
                       'demo.rs as tests/seed_demo.rs with and without the patch, dev and release',
                'patch_applies': conf.get('applies'), 'builds': conf.get('builds'),
                'existing_suite_passes': conf.get('suite_passes'), 'existing_suite_passes_release': conf.get('suite_passes_release'),
                'demo_passes_unpatched': conf.get('demo_clean'), 'demo_passes_patched': conf.get('demo_patched'),
            },
            'checks_that_fire': fired,
            'caught_by_own_property_check': prop in fired,
            'first_reports': {p: checks[p].get('reports', [])[:2] for p in fired[:4]},
        }
        json.dump(meta, open(os.path.join(d, 'meta.json'), 'w'), indent=1)
        rows.append((key, 'kept; fired: %s' % ', '.join(fired)))
    return rows


if __name__ == '__main__':
    main()
