#!/usr/bin/env python3
"""Re-evaluate seeded changes against the current checks (tool mode ./check ALL in a scratch worktree per seed) and
refresh checks_that_fire / caught_by_own_property_check / first_reports in seeded/<id>/meta.json.
usage: reeval_seeds.py <shard index> <shard count> [id ...]"""
import json, os, subprocess, sys
HERE = os.path.dirname(os.path.dirname(os.path.abspath(__file__)))
SD = os.path.join(HERE, 'seeded')
i, n = int(sys.argv[1]), int(sys.argv[2])
ids = sys.argv[3:] or sorted(os.listdir(SD))
ids = [x for k, x in enumerate(ids) if k % n == i]
for sid in ids:
    d = os.path.join(SD, sid)
    mf = os.path.join(d, 'meta.json')
    if not os.path.exists(mf):
        continue
    r = subprocess.run([sys.executable, os.path.join(HERE, 'tools', 'seedcheck.py'), 'checks', d], capture_output=True, text=True)
    try:
        t = r.stdout
        res = json.loads(t[t.index('{'):])
    except Exception:
        print(sid, 'EVALUATION FAILED', (r.stdout + r.stderr)[-300:])
        continue
    if 'error' in res:
        print(sid, 'ERROR', str(res)[:300])
        continue
    meta = json.load(open(mf))
    fired = sorted(p for p, v in res.items() if isinstance(v, dict) and v.get('fired'))
    old = meta.get('checks_that_fire')
    meta['checks_that_fire'] = fired
    meta['caught_by_own_property_check'] = meta['breaks_property'] in fired
    meta['first_reports'] = {p: res[p].get('reports', [])[:2] for p in fired[:4]}
    json.dump(meta, open(mf, 'w'), indent=1)
    print('%-8s %s %s%s' % (sid, 'own' if meta['caught_by_own_property_check'] else 'OWN-MISSED', ' '.join(fired),
                            '' if old == fired else '   (was: %s)' % ' '.join(old or [])), flush=True)
