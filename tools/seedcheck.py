#!/usr/bin/env python3
"""Confirm a seeded change and run the registered checks against it, all in a scratch worktree.

usage: seedcheck.py confirm <dir with patch.diff + demo.rs>    -> prints JSON (builds, suite, demo both ways)
       seedcheck.py checks  <dir with patch.diff> [Cxx ...]    -> which checks fire on the patched tree
Nothing is written into /repo or /verif; the worktree and its build output are removed at the end.
"""
import json
import os
import shutil
import subprocess
import sys
import tempfile

HERE = os.path.dirname(os.path.dirname(os.path.abspath(__file__)))
REPO = '/repo'


def sh(cmd, cwd, env=None, timeout=1800):
    e = dict(os.environ, CARGO_NET_OFFLINE='true')
    if env:
        e.update(env)
    p = subprocess.run(cmd, cwd=cwd, env=e, capture_output=True, text=True, timeout=timeout)
    return p.returncode, (p.stdout + p.stderr)


def scratch():
    d = tempfile.mkdtemp(prefix='seedchk-')
    w = os.path.join(d, 'w')
    subprocess.run(['git', '-C', REPO, 'worktree', 'add', '-q', '--detach', w, 'HEAD'], check=True)
    return d, w


def cleanup(d):
    subprocess.run(['git', '-C', REPO, 'worktree', 'remove', '--force', os.path.join(d, 'w')],
                   stdout=subprocess.DEVNULL, stderr=subprocess.DEVNULL)
    subprocess.run(['git', '-C', REPO, 'worktree', 'prune'])
    shutil.rmtree(d, ignore_errors=True)


def confirm(sd):
    patch = os.path.join(sd, 'patch.diff')
    demo = os.path.join(sd, 'demo.rs')
    d, w = scratch()
    res = {'patch': patch}
    feats = []
    try:
        if 'serde' in open(demo).read() or 'serialization' in open(patch).read():
            feats = ['--features', 'serde']
            res['demo_features'] = 'serde'
    except Exception:
        pass
    try:
        # demo on the unchanged tree first
        shutil.copy(demo, os.path.join(w, 'tests', 'seed_demo.rs'))
        res['demo_clean'] = {}
        for prof in ('dev', 'release'):
            rc, out = sh(['cargo', 'test', '--offline', '--test', 'seed_demo'] + feats + (['--release'] if prof == 'release' else []), w)
            res['demo_clean'][prof] = rc == 0
        rc, out = sh(['git', 'apply', patch], w)
        res['applies'] = rc == 0
        if rc != 0:
            res['error'] = out[-500:]
            return res
        res['demo_patched'] = {}
        for prof in ('dev', 'release'):
            rc, out = sh(['cargo', 'test', '--offline', '--test', 'seed_demo'] + feats + (['--release'] if prof == 'release' else []), w)
            res['demo_patched'][prof] = rc == 0
            if rc != 0:
                res.setdefault('demo_fail_excerpt', out[-700:])
        os.remove(os.path.join(w, 'tests', 'seed_demo.rs'))
        res['builds'] = {}
        for nm, extra in (('dev', []), ('release', ['--release']), ('std', ['--features', 'std']),
                          ('serde', ['--features', 'serde'])):
            rc, out = sh(['cargo', 'build', '--offline'] + extra, w)
            res['builds'][nm] = rc == 0
        rc, out = sh(['cargo', 'test', '--offline', '--workspace', '--no-fail-fast'], w)
        res['suite_passes'] = rc == 0
        if rc != 0:
            res['suite_excerpt'] = out[-800:]
        rc, out = sh(['cargo', 'test', '--offline', '--workspace', '--no-fail-fast', '--release'], w)
        res['suite_passes_release'] = rc == 0
        res['confirmed'] = bool(res['applies'] and all(res['builds'].values()) and res['suite_passes']
                                and all(res['demo_clean'].values())
                                and not all(res['demo_patched'].values()))
        return res
    finally:
        cleanup(d)


def checks(sd, pids):
    patch = os.path.join(sd, 'patch.diff')
    d, w = scratch()
    out = {}
    try:
        rc, o = sh(['git', 'apply', patch], w)
        if rc != 0:
            return {'error': 'patch does not apply'}
        if not pids:
            # one combined analysis for all properties (./check ALL)
            ev = tempfile.mkdtemp(prefix='seedchk-ev-')
            rc, o = sh([os.path.join(HERE, 'check'), 'ALL', '--tier', 'quick'], HERE,
                       env={'VERIF_REPO': w, 'VERIF_EVIDENCE_DIR': ev})
            shutil.rmtree(ev, ignore_errors=True)
            try:
                fired = json.loads(o[o.index('{'):])
            except Exception:
                return {'error': 'combined run failed', 'tail': o[-600:]}
            m = json.load(open(os.path.join(HERE, 'MANIFEST.json')))
            for c in m['checks']:
                pid = c['property_id']
                out[pid] = {'fired': pid in fired, 'rc': 1 if pid in fired else 0, 'reports': fired.get(pid, [])}
            return out
        for pid in pids:
            ev = tempfile.mkdtemp(prefix='seedchk-ev-')
            rc, o = sh([os.path.join(HERE, 'check'), pid, '--tier', 'quick'], HERE,
                       env={'VERIF_REPO': w, 'VERIF_EVIDENCE_DIR': ev})
            shutil.rmtree(ev, ignore_errors=True)
            fired = rc == 1 and ('VIOLATION property=%s' % pid) in o
            lines = [l for l in o.splitlines() if l.startswith('  [')]
            out[pid] = {'fired': fired, 'rc': rc, 'reports': lines[:6]}
            if rc not in (0, 1):
                out[pid]['tail'] = o[-400:]
        return out
    finally:
        cleanup(d)


if __name__ == '__main__':
    mode, sd = sys.argv[1], sys.argv[2]
    if mode == 'confirm':
        print(json.dumps(confirm(sd), indent=1))
    else:
        print(json.dumps(checks(sd, sys.argv[3:]), indent=1))
