#!/bin/bash
# usage: benignsweepA.sh <out file> patch...   -- like benignsweep.sh, configuration A only (+D for serde code)
HERE=$(cd "$(dirname "$0")/.." && pwd)
OUT=$1; shift
: > $OUT
for p in "$@"; do
  cfgs="A"; grep -q serialization $p && cfgs="A D"
  for c in $cfgs; do echo "=== $(basename $p) cfg $c" >> $OUT; $HERE/tools/trypatch.sh $p $c 2>&1 | grep -E "VIOL|PATCH|^     " | cut -c1-330 >> $OUT; done
done
echo FIN >> $OUT
