#!/usr/bin/env python3
"""debug helper: run roots (substring match, or all) incl. the outcome schemas; print violations + digests
usage: spec.py <facts.json> [substr ...]"""
import sys, os, json
sys.path.insert(0, os.path.dirname(os.path.dirname(os.path.abspath(__file__))))
sys.setrecursionlimit(20000)
from mmcheck import run
facts, m = run.analyse_config(sys.argv[1], jobs=(1 if len(sys.argv) > 2 else None), only=sys.argv[2:] or None)
for bid, r in sorted(m['roots'].items()):
    d = r['digest']
    if d.get('classes') is not None or r['violations'] or r['error']:
        print('%-80s %s paths=%s %s %.1fs' % (bid[-80:], d.get('classes'), d.get('paths'), 'ERR' if r['error'] else '', r['wall']))
    if d.get('error'):
        print(d['error'])
for v in m['violations']:
    print('VIOL [%s/%s] %s :: %s (%s) props=%s\n     %s' % (v['rule'], v['status'], v['root'], '>'.join(v['chain']), v['primitive'], v.get('props'), v['what'][:int(os.environ.get('W','700'))]))
if len(sys.argv) <= 2:
    from mmcheck import graph, props
    n_cen, cen, _ = graph.census(facts)
    n_cov, cov = props.coverage_rule(facts, m)
    for v in cen + cov:
        print('VIOL [%s/%s] %s :: (%s) props=census\n     %s' % (v['rule'], v['status'], v['root'], v['primitive'], v['what'][:300]))
print('oblig', dict(m['n_oblig']), 'by-prop', dict(m['n_oblig_p']), 'wall %.1fs' % m['wall'])
