#!/bin/bash
# usage: trypatch.sh <patch.diff> <cfg letter> [root substrings...]  -- runs the interpreter + schemas on a patched scratch copy
HERE=$(cd "$(dirname "$0")/.." && pwd)
P=$(readlink -f $1); CFG=$2; shift 2
D=$(mktemp -d /tmp/tp-XXXX)
git -C /repo worktree add -q --detach $D/w HEAD || exit 2
git -C $D/w apply $P || { echo "PATCH DOES NOT APPLY"; git -C /repo worktree remove --force $D/w; rm -rf $D; exit 2; }
extra=""; [ $CFG = B ] && extra="--release"; [ $CFG = D ] && extra="--features serde"; [ $CFG = C ] && extra="--features std"; [ $CFG = F ] && extra="--features serde --release"
bash /verif/tools/rundrv.sh $D/w $D/f.json $CFG $extra | grep -E "error|warning: unused" | head
python3 $HERE/tools/spec.py $D/f.json "$@" 2>&1 | grep -E "VIOL|^     |oblig" | cut -c1-400
git -C /repo worktree remove --force $D/w; git -C /repo worktree prune; rm -rf $D
