#!/usr/bin/env python3
"""regenerate MANIFEST.json from mmcheck/props.py + mmcheck/manifest_text.py"""
import json, os, sys
HERE = os.path.dirname(os.path.dirname(os.path.abspath(__file__)))
sys.path.insert(0, HERE)
from mmcheck import props, manifest_text as T

allp = [json.loads(l) for l in open(os.path.join(HERE, 'properties.jsonl'))]
checks = []
for p in allp:
    pid = p['id']
    if pid not in props.PROPS:
        continue
    spec = props.PROPS[pid]
    t = T.TEXT[pid]
    checks.append({
        'property_id': pid,
        'quick_cmd': './check %s --tier quick' % pid,
        'thorough_cmd': './check %s --tier thorough' % pid,
        'evidence_file': '/verif/evidence/%s.json' % pid,
        'replay_cmd_template': './check %s --replay {path}' % pid,
        'engine': t['engine'],
        'level_claimed': {'category': spec['level'], 'text': t['level'], 'design_ref': 'DESIGN.md §6.' + pid},
        'level_note': t['note'],
        'technique': t['technique'],
    })
na = [{'property_id': p['id'], 'reason': T.NOT_APPLICABLE.get(p['id'], 'check not built yet (work in progress, see DESIGN.md §13)')}
      for p in allp if p['id'] not in props.PROPS]
m = {
    'version': 1,
    'setup_cmd': 'cd driver && CARGO_NET_OFFLINE=true cargo build --release --offline && cd .. && python3 -m compileall -q mmcheck',
    'hooks': {
        'guard': 'micromap_verif',
        'enable': 'no source hooks: every check is a static analysis of the MIR of /repo\'s working tree (cargo +nightly check with the mmdrv wrapper)',
        'baseline_off_cmd': 'cd /repo && cargo test --workspace --no-fail-fast --offline',
        'source_commits': [],
        'add_only': True,
    },
    'engines': T.ENGINES,
    'checks': checks,
    'not_applicable': na,
    'notes': T.NOTES,
}
json.dump(m, open(os.path.join(HERE, 'MANIFEST.json'), 'w'), indent=1)
print('claimed', [c['property_id'] for c in checks])
