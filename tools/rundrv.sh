#!/bin/bash
# usage: rundrv.sh <repo> <out.json> <config-letter> [extra cargo args...]
REPO=$1; OUT=$2; CFG=$3; shift 3
T=$(mktemp -d)
cd $REPO && LD_LIBRARY_PATH=$(rustc +nightly --print sysroot)/lib RUSTFLAGS="-Zmir-opt-level=0 --cap-lints=allow" RUSTC_WORKSPACE_WRAPPER=/verif/driver/target/release/mmdrv MMDRV_OUT=$OUT MMDRV_NONCE=$$ MMDRV_CONFIG=$CFG CARGO_TARGET_DIR=$T/target cargo +nightly check --lib --offline "$@" 2>&1 | grep -v "^\s*[0-9]*:" | tail -30
rm -rf $T
