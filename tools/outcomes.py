#!/usr/bin/env python3
"""debug helper: run one root through the slot interpreter and print every exit (value, container
state, event log).  usage: outcomes.py <facts.json> <root-substring> [contract]"""
import sys, os
sys.path.insert(0, os.path.dirname(os.path.dirname(os.path.abspath(__file__))))
sys.setrecursionlimit(20000)
from mmcheck.facts import Facts
from mmcheck.engine import Engine
from mmcheck import roots

f = Facts(sys.argv[1])
E = Engine(f)
for bid in sorted(f.bodies):
    b = f.bodies[bid]
    if not roots.is_root(b) or sys.argv[2] not in bid:
        continue
    rr = roots.run_root(E, b, sys.argv[3] if len(sys.argv) > 3 else None)
    print('=== root', bid, 'exits', len(rr.outcomes), 'error', rr.error)
    for kind, st, v in rr.outcomes:
        print(' --', kind, 'val=', v)
        for mid, ms in st.maps.items():
            print('     map', mid, ms.name, ms.describe(), 'len0=', ms.len0, 'contents=', ms.contents, 'examined=', ms.examined, 'borrowed' if ms.borrowed else '')
        for e in st.events:
            print('       ', e)
        print('     zone:', '; '.join(st.zone.facts(set(st.zone.vars))[:14]))
for v in E.violations:
    print('VIOL', v)
