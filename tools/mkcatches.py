#!/usr/bin/env python3
"""Regenerate DESIGN.md §14.10 (which check catches which seeded change) from seeded/*/meta.json."""
import json, os, re
HERE = os.path.dirname(os.path.dirname(os.path.abspath(__file__)))
rows = []
sd = os.path.join(HERE, 'seeded')
for n in sorted(os.listdir(sd)):
    mf = os.path.join(sd, n, 'meta.json')
    if not os.path.exists(mf):
        continue
    m = json.load(open(mf))
    own = m['breaks_property']
    fired = m.get('checks_that_fire', [])
    first = ''
    reps = (m.get('first_reports') or {}).get(own) or next(iter((m.get('first_reports') or {}).values()), [])
    if reps:
        r = reps[0]
        mm = re.match(r'\s*\[([A-Z0-9-]+)/', r)
        first = mm.group(1) if mm else ''
    rows.append((n, own, m['change'], m['needs_to_manifest'], m['demo_fails_in'],
                 'yes' if own in fired else '**no**', ', '.join(fired) or '—', first))
out = ['| seed | breaks | change (written by an independent agent) | needs, to manifest | own check fires | all checks that fire | first rule |',
       '|---|---|---|---|---|---|---|']
for r in rows:
    out.append('| %s | %s | %s | %s; demo fails in %s | %s | %s | %s |' % (r[0], r[1], r[2].replace('|', '/'), r[3].replace('|', '/'), r[4], r[5], r[6], r[7]))
n_own = sum(1 for r in rows if r[5] == 'yes')
n_any = sum(1 for r in rows if r[6] != '—')
summary = ('%d seeded changes were confirmed (build in all profiles, existing suite passes unedited, demonstration fails with the '
           'change and passes without it); %d are reported by the check of the property they were written to break, %d by at '
           'least one check.' % (len(rows), n_own, n_any))
p = os.path.join(HERE, 'DESIGN.md')
s = open(p).read()
block = '<!-- CATCHES:BEGIN -->\n' + summary + '\n\n' + '\n'.join(out) + '\n<!-- CATCHES:END -->'
if '<!-- CATCHES:BEGIN -->' in s:
    s = re.sub(r'<!-- CATCHES:BEGIN -->.*?<!-- CATCHES:END -->', lambda _: block, s, flags=re.S)
else:
    s += '\n### 14.10 Which check catches which seeded change\n\n' + block + '\n'
open(p, 'w').write(s)
print(summary)
