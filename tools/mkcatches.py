#!/usr/bin/env python3
"""Regenerate DESIGN.md §14.10 (which check catches which seeded change) from seeded/*/meta.json."""
import json, os, re
HERE = os.path.dirname(os.path.dirname(os.path.abspath(__file__)))
rows = []
sd = os.path.join(HERE, 'seeded')
for n in sorted(os.listdir(sd)):
    mf = os.path.join(sd, n, 'meta.json')
    if not os.path.exists(mf):
        continue
    m = json.load(open(mf))
    own = m['breaks_property']
    fired = m.get('checks_that_fire', [])
    first = ''
    reps = (m.get('first_reports') or {}).get(own) or next(iter((m.get('first_reports') or {}).values()), [])
    if reps:
        r = reps[0]
        mm = re.match(r'\s*\[([A-Z0-9-]+)/', r)
        first = mm.group(1) if mm else ''
    rows.append((n, own, m['change'], m['needs_to_manifest'], m['demo_fails_in'],
                 'yes' if own in fired else '**no**', ', '.join(fired) or '—', first))
out = ['| seed | breaks | change (written by an independent agent) | needs, to manifest | own check fires | all checks that fire | first rule |',
       '|---|---|---|---|---|---|---|']
for r in rows:
    out.append('| %s | %s | %s | %s; demo fails in %s | %s | %s | %s |' % (r[0], r[1], r[2].replace('|', '/'), r[3].replace('|', '/'), r[4], r[5], r[6], r[7]))
n_own = sum(1 for r in rows if r[5] == 'yes')
n_any = sum(1 for r in rows if r[6] != '—')
summary = ('%d seeded changes were confirmed (build in all profiles, existing suite passes unedited, demonstration fails with the '
           'change and passes without it); %d are reported by the check of the property they were written to break, %d by at '
           'least one check.' % (len(rows), n_own, n_any))
missed_own = [r for r in rows if r[5] != 'yes']
missed_all = [r for r in rows if r[6] == '—']
summary += ('\n\nNot reported by the check of their own property (%d): %s.  Reported by no check at all (%d): %s.  '
            'Where a change is caught only by another property\'s check this is because the checks attribute a '
            'report to the properties whose statement the violated rule establishes: e.g. a change written to break '
            '"borrowing iterators yield every entry exactly once" (C09) by corrupting `len` in an insertion routine is '
            'reported by the invariant rules (C02/C03/C05/C17), not by the iterator schemas, which are judged on an '
            'entry state that satisfies the invariant.'
            % (len(missed_own), ', '.join('%s (%s)' % (r[0], r[6]) for r in missed_own) or 'none',
               len(missed_all), ', '.join(r[0] for r in missed_all) or 'none'))
p = os.path.join(HERE, 'DESIGN.md')
s = open(p).read()
block = '<!-- CATCHES:BEGIN -->\n' + summary + '\n\n' + '\n'.join(out) + '\n<!-- CATCHES:END -->'
if '<!-- CATCHES:BEGIN -->' in s:
    s = re.sub(r'<!-- CATCHES:BEGIN -->.*?<!-- CATCHES:END -->', lambda _: block, s, flags=re.S)
else:
    s += '\n### 14.10 Which check catches which seeded change\n\n' + block + '\n'
open(p, 'w').write(s)
print(summary)
