#!/bin/bash
# usage: benignsweep.sh <out file> [patch ...]   (default: selftest/benign/*.patch) -- configs A, B (+D for serialization)
HERE=$(cd "$(dirname "$0")/.." && pwd)
OUT=$1; shift
L="$@"; [ -z "$L" ] && L=$(ls $HERE/selftest/benign/*.patch)
: > $OUT
for p in $L; do
  cfgs="A B"; grep -q serialization $p && cfgs="A B D"
  for c in $cfgs; do echo "=== $(basename $p) cfg $c" >> $OUT; $HERE/tools/trypatch.sh $p $c 2>&1 | grep -E "VIOL|PATCH|^     " | cut -c1-330 >> $OUT; done
done
echo FIN >> $OUT
