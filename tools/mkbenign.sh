#!/bin/bash
# usage: mkbenign.sh <name>   (python edit script on stdin, gets the worktree path as argv[1]); writes selftest/benign/<name>.patch
HERE=$(cd "$(dirname "$0")/.." && pwd)
D=$(mktemp -d /tmp/mk-XXXX); git -C /repo worktree add -q --detach $D/w HEAD
python3 - $D/w || { git -C /repo worktree remove --force $D/w; rm -rf $D; exit 1; }
git -C $D/w diff > $HERE/selftest/benign/$1.patch
(cd $D/w && cargo test --offline 2>&1 | grep -E "test result|error" | head -4; cargo build --offline --release 2>&1 | grep -E "error|warning" | head -3)
git -C /repo worktree remove --force $D/w; rm -rf $D
