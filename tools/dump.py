#!/usr/bin/env python3
"""debug helper: pretty-print a body from a fact file"""
import json,sys
def P(p):
    s='_%d'%p['local']
    for e in p['proj']:
        if e=='deref': s='(*%s)'%s
        elif 'field' in e: s+='.%d'%e['field']
        elif 'index' in e: s+='[_%d]'%e['index']
        elif 'downcast' in e: s='(%s as v%d)'%(s,e['downcast'])
        else: s+=str(e)
    return s
def O(o):
    if 'copy' in o: return P(o['copy'])
    if 'move' in o: return 'move '+P(o['move'])
    if 'const' in o: return 'const '+o['const']['val']
    return str(o)
def RV(r):
    k=next(iter(r)); v=r[k]
    if k=='use': return O(v)
    if k=='ref': return ('&mut ' if v['mut'] else '&')+P(v['place'])
    if k=='bin': return '%s(%s, %s)'%(v['op'],O(v['l']),O(v['r']))
    if k=='un': return '%s(%s)'%(v['op'],O(v['x']))
    if k=='agg': return '%s%s[%s]'%(v['kind'],':'+v.get('path','')+'#'+str(v.get('variant','')) if v['kind']=='adt' else (':'+v.get('body','') if v['kind']=='closure' else ''),', '.join(O(x) for x in v['ops']))
    if k=='discr': return 'discr(%s)'%P(v)
    if k=='cast': return 'cast<%s>(%s)'%(v['kind'],O(v['op']))
    return k+':'+str(v)
def eff(e):
    out=[]
    for k in ('user','dyn','opaque','alloc','extern','local','errors'):
        if e[k]: out.append(k+'='+str(e[k]))
    if e['unwind']: out.append('UNWIND')
    if e['abort']: out.append('abort')
    out.append('inst=%d'%e['instances'])
    return ' '.join(out)
def dump(b):
    print('===',b['id'],b['kind'],'args=',b['arg_count'])
    for i,l in enumerate(b['locals']): print('   _%d: %s %s'%(i,l['s'],l['name'] or ''))
    for i,bl in enumerate(b['blocks']):
        print(' bb%d%s:'%(i,' (cleanup)' if bl['cleanup'] else ''))
        for s in bl['stmts']:
            if s['k']=='assign': print('    %s = %s'%(P(s['place']),RV(s['rv'])))
            elif s['k'] in('live','dead'): pass
            else: print('    ',s)
        t=bl['term']
        if t['k']=='call':
            print('    %s = call %s(%s) -> %s unwind %s   [%s] {%s}'%(P(t['dest']),t['callee'].get('s'),', '.join(O(x) for x in t['operands']),t['target'],t['unwind'],t['callee']['resolved']+':'+t['callee'].get('rdef',''),eff(t['effects'])))
        elif t['k']=='drop':
            print('    drop(%s: %s) -> %s unwind %s {%s}'%(P(t['place']),t['ty_s'],t['target'],t['unwind'],eff(t['effects'])))
        elif t['k']=='switch':
            print('    switch %s %s else %s'%(O(t['discr']),t['targets'],t['otherwise']))
        elif t['k']=='assert':
            print('    assert(%s == %s, %s %s) -> %s unwind %s'%(O(t['cond']),t['expected'],t['msg'],[O(x) for x in t['msg_operands']],t['target'],t['unwind']))
        else: print('    ',{k:v for k,v in t.items()})
if __name__=='__main__':
    d=json.load(open(sys.argv[1]))
    for b in d['bodies']:
        if any(a in b['id'] for a in sys.argv[2:]): dump(b)
