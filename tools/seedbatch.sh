#!/bin/bash
# usage: seedbatch.sh <outdir> <seed dir>...   (runs confirm unless <outdir>/<name>.confirm.json exists, then all checks)
OUT=$1; shift
mkdir -p $OUT
HERE=$(cd "$(dirname "$0")/.." && pwd)
(cd $HERE/driver && CARGO_NET_OFFLINE=true cargo build --release --offline >/dev/null 2>&1)
for d in "$@"; do
  n=$(echo $d | sed 's#.*/\(C[0-9]*\)/\([0-9]*\)/*$#\1_\2#')
  [ -s $OUT/$n.confirm.json ] || python3 $HERE/tools/seedcheck.py confirm $d > $OUT/$n.confirm.json 2>&1
  python3 $HERE/tools/seedcheck.py checks $d > $OUT/$n.checks.json 2>&1
  echo "$n done"
done
echo ALLDONE
