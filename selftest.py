#!/usr/bin/env python3
"""Validate the checker both ways (DESIGN.md §2.6): every patch under selftest/mutants must make the
listed properties fail, every patch under selftest/benign (and the seeded changes under seeded/)
behaves as recorded.  Scratch copies live under $TMPDIR and are removed immediately."""
import json
import os
import shutil
import subprocess
import sys
import tempfile

HERE = os.path.dirname(os.path.abspath(__file__))
REPO = os.environ.get('VERIF_REPO', '/repo')


def scratch(patch):
    d = tempfile.mkdtemp(prefix='mmself-')
    subprocess.run(['git', '-C', REPO, 'worktree', 'add', '-q', '--detach', os.path.join(d, 'w'), 'HEAD'], check=True)
    w = os.path.join(d, 'w')
    r = subprocess.run(['git', '-C', w, 'apply', patch], capture_output=True, text=True)
    if r.returncode != 0:
        cleanup(d)
        raise RuntimeError('patch does not apply: %s\n%s' % (patch, r.stderr))
    return d, w


def cleanup(d):
    subprocess.run(['git', '-C', REPO, 'worktree', 'remove', '--force', os.path.join(d, 'w')],
                   stdout=subprocess.DEVNULL, stderr=subprocess.DEVNULL)
    subprocess.run(['git', '-C', REPO, 'worktree', 'prune'])
    shutil.rmtree(d, ignore_errors=True)


def run_check(w, pid, tier='quick'):
    ev = tempfile.mkdtemp(prefix='mmself-ev-')
    env = dict(os.environ, VERIF_REPO=w, VERIF_EVIDENCE_DIR=ev)
    r = subprocess.run([os.path.join(HERE, 'check'), pid, '--tier', tier], capture_output=True, text=True, env=env)
    shutil.rmtree(ev, ignore_errors=True)
    return r.returncode, r.stdout + r.stderr


def builds_and_tests(w, tests=True):
    env = dict(os.environ, CARGO_NET_OFFLINE='true', CARGO_TARGET_DIR=os.path.join(w, 'target'))
    r = subprocess.run(['cargo', 'test', '--offline', '--lib'] + ([] if tests else ['--no-run']),
                       cwd=w, env=env, capture_output=True, text=True)
    return r.returncode == 0, (r.stdout + r.stderr)[-1500:]


def main():
    args = sys.argv[1:]
    want = [a for a in args if not a.startswith('-')]
    with_tests = '--tests' in args
    table = json.load(open(os.path.join(HERE, 'selftest', 'expect.json')))
    ok = True
    rows = []
    for e in table:
        name = e['patch']
        if want and not any(w in name for w in want):
            continue
        d, w = scratch(os.path.join(HERE, name))
        try:
            if with_tests:
                good, log = builds_and_tests(w)
                if not good:
                    print('!! %s: the patched tree does not build / pass its tests\n%s' % (name, log))
                    ok = False
            for pid in e.get('fails', []):
                rc, out = run_check(w, pid)
                hit = rc == 1 and 'VIOLATION property=%s' % pid in out
                if e.get('needle') and e['needle'] not in out:
                    hit = False
                rows.append((name, pid, 'fails', 'OK' if hit else 'MISSED'))
                if not hit:
                    ok = False
                    print(out[-1500:])
            for pid in e.get('passes', []):
                rc, out = run_check(w, pid)
                good = rc == 0 and 'VIOLATION' not in out
                rows.append((name, pid, 'passes', 'OK' if good else 'FALSE-ALARM'))
                if not good:
                    ok = False
                    print(out[-1500:])
        finally:
            cleanup(d)
    for r in rows:
        print('%-70s %-4s %-7s %s' % r)
    return 0 if ok else 1


if __name__ == '__main__':
    sys.exit(main())
