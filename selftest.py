#!/usr/bin/env python3
"""Validate the checker both ways (DESIGN.md §2.6 / §14.7).

  selftest/mutants/*.patch   + selftest/expect.json : each must make the listed checks fire
  seeded/<id>/patch.diff     + meta.json            : each must make the checks listed in meta.checks_that_fire fire
  selftest/benign/*.patch                           : every check must stay silent

usage: selftest.py [--props C12,C01] [--kind mutants|seeded|benign] [name substring ...]
Each patch is applied to a scratch worktree of /repo HEAD under $TMPDIR (never inside /repo or /verif);
the check is pointed at it through VERIF_REPO, with its evidence redirected to a scratch directory; the
worktree and all build output are removed immediately afterwards.  Exit 0 iff every expectation holds."""
import json
import os
import shutil
import subprocess
import sys
import tempfile

HERE = os.path.dirname(os.path.abspath(__file__))
REPO = os.environ.get('VERIF_REPO_BASE', '/repo')


def scratch(patch):
    d = tempfile.mkdtemp(prefix='mmself-')
    w = os.path.join(d, 'w')
    subprocess.run(['git', '-C', REPO, 'worktree', 'add', '-q', '--detach', w, 'HEAD'], check=True)
    r = subprocess.run(['git', '-C', w, 'apply', os.path.abspath(patch)], capture_output=True, text=True)
    if r.returncode != 0:
        cleanup(d)
        raise RuntimeError('patch does not apply: %s\n%s' % (patch, r.stderr))
    return d, w


def cleanup(d):
    subprocess.run(['git', '-C', REPO, 'worktree', 'remove', '--force', os.path.join(d, 'w')],
                   stdout=subprocess.DEVNULL, stderr=subprocess.DEVNULL)
    subprocess.run(['git', '-C', REPO, 'worktree', 'prune'])
    shutil.rmtree(d, ignore_errors=True)


def run_check(w, pid, tier='quick'):
    ev = tempfile.mkdtemp(prefix='mmself-ev-')
    env = dict(os.environ, VERIF_REPO=w, VERIF_EVIDENCE_DIR=ev, VERIF_NO_SELFTEST='1')
    r = subprocess.run([os.path.join(HERE, 'check'), pid, '--tier', tier], capture_output=True, text=True, env=env)
    shutil.rmtree(ev, ignore_errors=True)
    return r.returncode, r.stdout + r.stderr


def claimed():
    m = json.load(open(os.path.join(HERE, 'MANIFEST.json')))
    return [c['property_id'] for c in m['checks']]


def corpus():
    """-> list of (kind, name, patch path, expected-to-fire set | None for benign)"""
    out = []
    ej = os.path.join(HERE, 'selftest', 'expect.json')
    if os.path.exists(ej):
        for e in json.load(open(ej)):
            out.append(('mutants', os.path.basename(e['patch']), os.path.join(HERE, e['patch']), set(e.get('fails', []))))
    sd = os.path.join(HERE, 'seeded')
    if os.path.isdir(sd):
        for n in sorted(os.listdir(sd)):
            mf = os.path.join(sd, n, 'meta.json')
            if os.path.exists(mf):
                meta = json.load(open(mf))
                out.append(('seeded', n, os.path.join(sd, n, 'patch.diff'), set(meta.get('checks_that_fire', []))))
    bd = os.path.join(HERE, 'selftest', 'benign')
    if os.path.isdir(bd):
        for n in sorted(os.listdir(bd)):
            if n.endswith('.patch'):
                out.append(('benign', n, os.path.join(bd, n), None))
    return out


_GIT = __import__('threading').Lock()      # `git worktree add/remove` on one repository: one at a time


def _one(job):
    kind, name, patch, expect, todo, verbose = job
    rows = []
    with _GIT:
        d, w = scratch(patch)
    try:
        for pid in todo:
            rc, out = run_check(w, pid)
            fired = rc == 1 and ('VIOLATION property=%s' % pid) in out
            if expect is None:
                good = rc == 0 and 'VIOLATION' not in out
                verdict = 'silent' if good else 'FALSE-ALARM'
            else:
                good = fired
                verdict = 'fires' if good else 'MISSED'
            rows.append({'kind': kind, 'patch': name, 'property': pid, 'verdict': verdict})
            if not good and verbose:
                print('!! %s %s %s\n%s' % (kind, name, pid, out[-1200:]))
    finally:
        with _GIT:
            cleanup(d)
    return rows


def validate(props, kinds=None, names=None, verbose=True, jobs=None):
    """run the given property checks against the corpus (in parallel); -> (rows, ok)"""
    import concurrent.futures
    work = []
    for kind, name, patch, expect in corpus():
        if kinds and kind not in kinds:
            continue
        if names and not any(x in name for x in names):
            continue
        todo = [p for p in props if (expect is None or p in expect)]
        if todo:
            work.append((kind, name, patch, expect, todo, verbose))
    jobs = jobs or int(os.environ.get('VERIF_SELFTEST_JOBS', '6'))
    rows = []
    with concurrent.futures.ThreadPoolExecutor(max_workers=jobs) as ex:
        for r in ex.map(_one, work):
            rows.extend(r)
    ok = all(r['verdict'] in ('fires', 'silent') for r in rows)
    return rows, ok


def main():
    args = sys.argv[1:]
    props = None
    kinds = None
    names = []
    i = 0
    while i < len(args):
        if args[i] == '--props':
            props = args[i + 1].split(',')
            i += 2
        elif args[i] == '--kind':
            kinds = args[i + 1].split(',')
            i += 2
        else:
            names.append(args[i])
            i += 1
    rows, ok = validate(props or claimed(), kinds, names or None)
    for r in rows:
        print('%-8s %-58s %-4s %s' % (r['kind'], r['patch'][:58], r['property'], r['verdict']))
    n_bad = sum(1 for r in rows if r['verdict'] in ('MISSED', 'FALSE-ALARM'))
    print('%d expectations, %d not met' % (len(rows), n_bad))
    return 0 if ok else 1


if __name__ == '__main__':
    sys.exit(main())
