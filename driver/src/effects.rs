//! Effect closure of a call / drop site (DESIGN.md §2.1): walk the resolved callee, and
//! transitively core's own generic MIR, with the *root* function's type parameters kept
//! symbolic, and record what can happen below the call: user code, unwinding, dynamic
//! dispatch, allocation, code outside core/micromap.

use crate::json::J;
use rustc_data_structures::fx::FxHashSet;
use rustc_middle::mir::{CastKind, Operand, Rvalue, StatementKind, TerminatorKind};
use rustc_middle::ty::adjustment::PointerCoercion;
use rustc_middle::ty::{self, EarlyBinder, GenericArgKind, GenericArgsRef, Instance, Ty, TyCtxt};
use rustc_span::def_id::DefId;
use std::collections::BTreeSet;

#[derive(Default)]
pub struct Eff {
    user: BTreeSet<String>,
    unwind: bool,
    unwind_why: BTreeSet<String>,
    abort: bool,
    dynamic: BTreeSet<String>,
    opaque: BTreeSet<String>,
    alloc: BTreeSet<String>,
    ext: BTreeSet<String>,
    local: BTreeSet<String>,
    intrinsics: BTreeSet<String>,
    errors: BTreeSet<String>,
    instances: usize,
}

fn set_json(s: &BTreeSet<String>) -> J {
    J::Arr(s.iter().map(|x| J::s(x.clone())).collect())
}

impl Eff {
    fn to_json(&self) -> J {
        J::obj(vec![
            ("user", set_json(&self.user)),
            ("unwind", J::Bool(self.unwind)),
            ("unwind_why", set_json(&self.unwind_why)),
            ("abort", J::Bool(self.abort)),
            ("dyn", set_json(&self.dynamic)),
            ("opaque", set_json(&self.opaque)),
            ("alloc", set_json(&self.alloc)),
            ("extern", set_json(&self.ext)),
            ("local", set_json(&self.local)),
            ("intrinsics", set_json(&self.intrinsics)),
            ("errors", set_json(&self.errors)),
            ("instances", J::Num(self.instances as i128)),
        ])
    }
}

pub struct Walker<'tcx> {
    tcx: TyCtxt<'tcx>,
    env: ty::TypingEnv<'tcx>,
}

/// Leaves without MIR that were read and found unable to unwind or call back (one reason each).
fn pure_leaf(path: &str) -> bool {
    const PURE: &[&str] = &[
        // memcpy-style / arithmetic helpers implemented in compiler_builtins or as lang shims
        "core::intrinsics::",
    ];
    PURE.iter().any(|p| path.starts_with(p))
}

impl<'tcx> Walker<'tcx> {
    pub fn new(tcx: TyCtxt<'tcx>, env: ty::TypingEnv<'tcx>) -> Self {
        Walker { tcx, env }
    }

    pub fn call_effects(&mut self, did: DefId, args: GenericArgsRef<'tcx>) -> J {
        let mut eff = Eff::default();
        let mut seen = FxHashSet::default();
        self.visit_call(did, args, &mut eff, &mut seen);
        eff.to_json()
    }

    pub fn drop_effects(&mut self, t: Ty<'tcx>) -> J {
        let mut eff = Eff::default();
        let mut seen = FxHashSet::default();
        self.visit_drop(t, &mut eff, &mut seen);
        eff.to_json()
    }

    pub fn indirect_effects(&mut self, t: Ty<'tcx>) -> J {
        let mut eff = Eff::default();
        eff.dynamic.insert(format!("indirect:{}", t));
        eff.unwind = true;
        eff.unwind_why.insert("indirect call".to_string());
        eff.to_json()
    }

    fn visit_call(
        &mut self,
        did: DefId,
        args: GenericArgsRef<'tcx>,
        eff: &mut Eff,
        seen: &mut FxHashSet<Instance<'tcx>>,
    ) {
        let tcx = self.tcx;
        match Instance::try_resolve(tcx, self.env, did, args) {
            Err(_) => {
                eff.errors.insert(format!("resolve-error:{}", crate::dpsa(tcx, did, args)));
                eff.unwind = true;
            }
            Ok(None) => {
                // too generic: a trait method on a type parameter (or projection) of the root
                eff.user.insert(crate::dpsa(tcx, did, args));
                eff.unwind = true;
                eff.unwind_why.insert(format!("user:{}", crate::dpsa(tcx, did, args)));
            }
            Ok(Some(inst)) => self.visit_instance(inst, eff, seen),
        }
    }

    fn visit_fn_like_ty(
        &mut self,
        t: Ty<'tcx>,
        eff: &mut Eff,
        seen: &mut FxHashSet<Instance<'tcx>>,
    ) {
        match t.kind() {
            ty::FnDef(d, a) => self.visit_call(*d, a, eff, seen),
            ty::Closure(d, a) => {
                if d.is_local() {
                    eff.local.insert(crate::dps(self.tcx, *d));
                } else {
                    let inst = Instance::new_raw(*d, a);
                    self.visit_instance(inst, eff, seen);
                }
            }
            _ => {}
        }
    }

    fn visit_instance(
        &mut self,
        inst: Instance<'tcx>,
        eff: &mut Eff,
        seen: &mut FxHashSet<Instance<'tcx>>,
    ) {
        let tcx = self.tcx;
        if !seen.insert(inst) {
            return;
        }
        eff.instances += 1;
        if eff.instances > 20000 {
            eff.errors.insert("instance budget exceeded".to_string());
            eff.unwind = true;
            return;
        }
        let did = inst.def_id();
        let path = crate::dps(tcx, did);
        match inst.def {
            ty::InstanceKind::Intrinsic(_) => {
                let name = tcx.item_name(did).to_string();
                if name == "abort" {
                    eff.abort = true;
                }
                eff.intrinsics.insert(name);
                // function-valued generic arguments (const_eval_select) are treated as called
                for a in inst.args.iter() {
                    if let GenericArgKind::Type(t) = a.kind() {
                        self.visit_fn_like_ty(t, eff, seen);
                    }
                }
                return;
            }
            ty::InstanceKind::Virtual(..) => {
                eff.dynamic.insert(path);
                eff.unwind = true;
                eff.unwind_why.insert("virtual call".to_string());
                return;
            }
            ty::InstanceKind::Item(_) => {
                if did.is_local() {
                    eff.local.insert(path);
                    return;
                }
                let krate = tcx.crate_name(did.krate).to_string();
                if krate != "core" {
                    eff.ext.insert(format!("{}::{}", krate, path));
                }
                let is_alloc = krate == "alloc"
                    || path.starts_with("alloc::")
                    || path.contains("__rust_alloc")
                    || path.contains("__rust_realloc")
                    || path.contains("exchange_malloc");
                if is_alloc {
                    eff.alloc.insert(path.clone());
                }
                if !tcx.is_mir_available(did) {
                    let diverges = tcx.fn_sig(did).skip_binder().output().skip_binder().is_never();
                    if diverges {
                        if path.contains("nounwind")
                            || path.contains("cannot_unwind")
                            || path.contains("panic_in_cleanup")
                        {
                            eff.abort = true;
                        } else {
                            eff.unwind = true;
                            eff.unwind_why.insert(format!("diverging:{}", path));
                        }
                    } else if !pure_leaf(&path) {
                        eff.opaque.insert(path.clone());
                        eff.unwind = true;
                        eff.unwind_why.insert(format!("opaque:{}", path));
                    }
                    return;
                }
            }
            ty::InstanceKind::DropGlue(_, None) => return,
            ty::InstanceKind::DropGlue(_, Some(t)) => {
                // an explicit drop_in_place::<T>() call: building the shim's MIR ICEs when T mentions
                // a (const) parameter of the root, so the glue is traversed structurally instead
                self.visit_drop(t, eff, seen);
                return;
            }
            _ => {}
        }
        // walk the body
        let body = tcx.instance_mir(inst.def);
        for data in body.basic_blocks.iter() {
            for s in &data.statements {
                if let StatementKind::Assign(b) = &s.kind {
                    if let Rvalue::Cast(CastKind::PointerCoercion(pc, _), op, _) = &b.1 {
                        if matches!(
                            pc,
                            PointerCoercion::ReifyFnPointer(..) | PointerCoercion::ClosureFnPointer(_)
                        ) {
                            let t = op.ty(body, tcx);
                            if let Some(t) = self.inst_ty(inst, t, eff) {
                                self.visit_fn_like_ty(t, eff, seen);
                            }
                        }
                    }
                }
            }
            let term = data.terminator();
            match &term.kind {
                TerminatorKind::Call { func, .. } | TerminatorKind::TailCall { func, .. } => {
                    let fty = func.ty(body, tcx);
                    let Some(fty) = self.inst_ty(inst, fty, eff) else { continue };
                    match fty.kind() {
                        ty::FnDef(d, a) => self.visit_call(*d, a, eff, seen),
                        ty::FnPtr(..) => {
                            let _: &Operand<'tcx> = func;
                            eff.dynamic.insert(format!("fnptr in {}", path));
                            eff.unwind = true;
                            eff.unwind_why.insert(format!("fnptr in {}", path));
                        }
                        other => {
                            eff.errors.insert(format!("callee kind {:?} in {}", other, path));
                            eff.unwind = true;
                        }
                    }
                }
                TerminatorKind::Drop { place, .. } => {
                    let t = place.ty(body, tcx).ty;
                    if let Some(t) = self.inst_ty(inst, t, eff) {
                        self.visit_drop(t, eff, seen);
                    }
                }
                TerminatorKind::Assert { .. } => {
                    eff.unwind = true;
                    eff.unwind_why.insert(format!("assert in {}", path));
                }
                TerminatorKind::InlineAsm { .. } => {
                    eff.opaque.insert(format!("asm in {}", path));
                    eff.unwind = true;
                }
                _ => {}
            }
        }
    }

    fn inst_ty(&mut self, inst: Instance<'tcx>, t: Ty<'tcx>, eff: &mut Eff) -> Option<Ty<'tcx>> {
        match inst.try_instantiate_mir_and_normalize_erasing_regions(
            self.tcx,
            self.env,
            EarlyBinder::bind(t),
        ) {
            Ok(t) => Some(t),
            Err(e) => {
                eff.errors.insert(format!("normalize:{:?}", e));
                eff.unwind = true;
                None
            }
        }
    }

    fn visit_drop(&mut self, t: Ty<'tcx>, eff: &mut Eff, seen: &mut FxHashSet<Instance<'tcx>>) {
        let tcx = self.tcx;
        if !t.needs_drop(tcx, self.env) {
            return;
        }
        match t.kind() {
            ty::Param(_) | ty::Alias(..) => {
                eff.user.insert(format!("drop:{}", t));
                eff.unwind = true;
                eff.unwind_why.insert(format!("user drop:{}", t));
            }
            ty::Dynamic(..) => {
                eff.dynamic.insert(format!("drop:{}", t));
                eff.unwind = true;
            }
            ty::Adt(def, args) => {
                // manual drop-glue traversal: building the DropGlue shim ICEs for types that
                // mention a const parameter of the root (e.g. `Map<K, V, N>`)
                if def.is_manually_drop() {
                    return;
                }
                if def.is_box() {
                    eff.alloc.insert("alloc::boxed::Box (drop)".to_string());
                }
                if def.destructor(tcx).is_some() {
                    let drop_trait = tcx.require_lang_item(rustc_hir::LangItem::Drop, rustc_span::DUMMY_SP);
                    let m = tcx.associated_item_def_ids(drop_trait)[0];
                    let margs = tcx.mk_args(&[t.into()]);
                    self.visit_call(m, margs, eff, seen);
                }
                for v in def.variants() {
                    for f in &v.fields {
                        let ft = f.ty(tcx, args);
                        let ft = match tcx.try_normalize_erasing_regions(self.env, ty::Unnormalized::new_wip(ft)) {
                            Ok(x) => x,
                            Err(_) => ft,
                        };
                        self.visit_drop(ft, eff, seen);
                    }
                }
            }
            ty::Tuple(elems) => {
                for e in elems.iter() {
                    self.visit_drop(e, eff, seen);
                }
            }
            ty::Array(e, _) | ty::Slice(e) => self.visit_drop(*e, eff, seen),
            ty::Closure(_, a) => {
                for e in a.as_closure().upvar_tys().iter() {
                    self.visit_drop(e, eff, seen);
                }
            }
            other => {
                eff.opaque.insert(format!("drop of {:?}", other));
                eff.unwind = true;
            }
        }
    }
}
