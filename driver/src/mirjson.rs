//! Structured JSON export of MIR bodies (layout: DESIGN.md §12).

use crate::effects::Walker;
use crate::json::J;
use rustc_hir::def::DefKind;
use rustc_middle::mir::{
    self, AggregateKind, BasicBlockData, Body, BorrowKind, Operand, Place, ProjectionElem, Rvalue,
    StatementKind, TerminatorKind, UnwindAction, VarDebugInfoContents,
};
use rustc_middle::ty::{self, GenericArgKind, GenericArgsRef, Ty, TyCtxt};
use rustc_span::def_id::{DefId, LocalDefId};
use rustc_span::Span;

pub fn span_json<'tcx>(tcx: TyCtxt<'tcx>, span: Span) -> J {
    if span.is_dummy() {
        return J::Null;
    }
    let sm = tcx.sess.source_map();
    // use the call-site span for macro expansions so that file:line is in the crate
    let src = span.source_callsite();
    let lo = sm.lookup_char_pos(src.lo());
    let file = match &lo.file.name {
        rustc_span::FileName::Real(r) => match r.local_path() {
            Some(p) => p.to_string_lossy().to_string(),
            None => format!("{:?}", lo.file.name),
        },
        other => format!("{:?}", other),
    };
    J::s(format!("{}:{}:{}", file, lo.line, lo.col.0 + 1))
}

pub fn crate_of<'tcx>(tcx: TyCtxt<'tcx>, did: DefId) -> String {
    tcx.crate_name(did.krate).to_string()
}

pub fn args_json<'tcx>(tcx: TyCtxt<'tcx>, args: GenericArgsRef<'tcx>) -> J {
    let mut v = Vec::new();
    for a in args.iter() {
        match a.kind() {
            GenericArgKind::Type(t) => v.push(ty_json(tcx, t)),
            GenericArgKind::Const(c) => {
                v.push(J::obj(vec![("k", J::s("const")), ("v", J::s(c.to_string()))]))
            }
            GenericArgKind::Lifetime(_) => {}
        }
    }
    J::Arr(v)
}

pub fn ty_json<'tcx>(tcx: TyCtxt<'tcx>, t: Ty<'tcx>) -> J {
    match t.kind() {
        ty::Bool | ty::Char | ty::Int(_) | ty::Uint(_) | ty::Float(_) | ty::Str => {
            J::obj(vec![("k", J::s("prim")), ("name", J::s(t.to_string()))])
        }
        ty::Adt(def, args) => J::obj(vec![
            ("k", J::s("adt")),
            ("path", J::s(crate::dps(tcx, def.did()))),
            ("crate", J::s(crate_of(tcx, def.did()))),
            ("local", J::Bool(def.did().is_local())),
            ("args", args_json(tcx, args)),
        ]),
        ty::Ref(_, to, m) => J::obj(vec![
            ("k", J::s("ref")),
            ("mut", J::Bool(m.is_mut())),
            ("to", ty_json(tcx, *to)),
        ]),
        ty::RawPtr(to, m) => J::obj(vec![
            ("k", J::s("rawptr")),
            ("mut", J::Bool(m.is_mut())),
            ("to", ty_json(tcx, *to)),
        ]),
        ty::Tuple(elems) => J::obj(vec![
            ("k", J::s("tuple")),
            ("elems", J::Arr(elems.iter().map(|e| ty_json(tcx, e)).collect())),
        ]),
        ty::Array(elem, len) => J::obj(vec![
            ("k", J::s("array")),
            ("elem", ty_json(tcx, *elem)),
            ("len", J::s(len.to_string())),
        ]),
        ty::Slice(elem) => J::obj(vec![("k", J::s("slice")), ("elem", ty_json(tcx, *elem))]),
        ty::Param(p) => J::obj(vec![("k", J::s("param")), ("name", J::s(p.name.to_string()))]),
        ty::Closure(did, args) => {
            let ups = args.as_closure().upvar_tys();
            J::obj(vec![
                ("k", J::s("closure")),
                ("body", J::s(crate::dps(tcx, *did))),
                ("local", J::Bool(did.is_local())),
                ("upvars", J::Arr(ups.iter().map(|e| ty_json(tcx, e)).collect())),
            ])
        }
        ty::FnDef(did, args) => J::obj(vec![
            ("k", J::s("fndef")),
            ("def", J::s(crate::dps(tcx, *did))),
            ("crate", J::s(crate_of(tcx, *did))),
            ("args", args_json(tcx, args)),
        ]),
        ty::FnPtr(..) => J::obj(vec![("k", J::s("fnptr")), ("s", J::s(t.to_string()))]),
        ty::Never => J::obj(vec![("k", J::s("never"))]),
        ty::Dynamic(..) => J::obj(vec![("k", J::s("dyn")), ("s", J::s(t.to_string()))]),
        ty::Alias(..) => J::obj(vec![("k", J::s("alias")), ("s", J::s(t.to_string()))]),
        _ => J::obj(vec![("k", J::s("other")), ("s", J::s(t.to_string()))]),
    }
}

fn place_json<'tcx>(p: &Place<'tcx>) -> J {
    let mut proj = Vec::new();
    for e in p.projection.iter() {
        proj.push(match e {
            ProjectionElem::Deref => J::s("deref"),
            ProjectionElem::Field(f, _) => J::obj(vec![("field", J::Num(f.as_usize() as i128))]),
            ProjectionElem::Index(l) => J::obj(vec![("index", J::Num(l.as_usize() as i128))]),
            ProjectionElem::Downcast(_, v) => {
                J::obj(vec![("downcast", J::Num(v.as_usize() as i128))])
            }
            ProjectionElem::ConstantIndex { offset, min_length, from_end } => J::obj(vec![(
                "constindex",
                J::obj(vec![
                    ("offset", J::Num(offset as i128)),
                    ("min_length", J::Num(min_length as i128)),
                    ("from_end", J::Bool(from_end)),
                ]),
            )]),
            other => J::obj(vec![("otherproj", J::s(format!("{:?}", other)))]),
        });
    }
    J::obj(vec![("local", J::Num(p.local.as_usize() as i128)), ("proj", J::Arr(proj))])
}

fn operand_json<'tcx>(tcx: TyCtxt<'tcx>, o: &Operand<'tcx>) -> J {
    match o {
        Operand::Copy(p) => J::obj(vec![("copy", place_json(p))]),
        Operand::Move(p) => J::obj(vec![("move", place_json(p))]),
        Operand::Constant(c) => {
            let t = c.const_.ty();
            let mut v = vec![("ty", ty_json(tcx, t)), ("val", J::s(format!("{}", c.const_)))];
            if let Some(si) = c.const_.try_to_scalar_int() {
                v.push(("bits", J::s(format!("{}", si.to_bits_unchecked()))));
            }
            if let mir::Const::Unevaluated(uv, _) = c.const_ {
                v.push(("uneval_def", J::s(crate::dps(tcx, uv.def))));
                v.push(("uneval_local", J::Bool(uv.def.is_local())));
            }
            if let mir::Const::Ty(_, ct) = c.const_ {
                if let ty::ConstKind::Param(p) = ct.kind() {
                    v.push(("param", J::s(p.name.to_string())));
                }
            }
            J::obj(vec![("const", J::obj(v))])
        }
        #[allow(unreachable_patterns)]
        other => J::obj(vec![("otherop", J::s(format!("{:?}", other)))]),
    }
}

fn rvalue_json<'tcx>(tcx: TyCtxt<'tcx>, rv: &Rvalue<'tcx>) -> J {
    match rv {
        Rvalue::Use(o, ..) => J::obj(vec![("use", operand_json(tcx, o))]),
        Rvalue::CopyForDeref(p) => J::obj(vec![("use", J::obj(vec![("copy", place_json(p))]))]),
        Rvalue::Repeat(o, n) => J::obj(vec![(
            "repeat",
            J::obj(vec![("op", operand_json(tcx, o)), ("n", J::s(n.to_string()))]),
        )]),
        Rvalue::Ref(_, bk, p) => J::obj(vec![(
            "ref",
            J::obj(vec![
                ("mut", J::Bool(matches!(bk, BorrowKind::Mut { .. }))),
                ("kind", J::s(format!("{:?}", bk))),
                ("place", place_json(p)),
            ]),
        )]),
        Rvalue::RawPtr(k, p) => J::obj(vec![(
            "rawptr",
            J::obj(vec![("kind", J::s(format!("{:?}", k))), ("place", place_json(p))]),
        )]),
        Rvalue::Cast(k, o, t) => J::obj(vec![(
            "cast",
            J::obj(vec![
                ("kind", J::s(format!("{:?}", k))),
                ("op", operand_json(tcx, o)),
                ("ty", ty_json(tcx, *t)),
            ]),
        )]),
        Rvalue::BinaryOp(op, b) => J::obj(vec![(
            "bin",
            J::obj(vec![
                ("op", J::s(format!("{:?}", op))),
                ("l", operand_json(tcx, &b.0)),
                ("r", operand_json(tcx, &b.1)),
            ]),
        )]),
        Rvalue::UnaryOp(op, o) => J::obj(vec![(
            "un",
            J::obj(vec![("op", J::s(format!("{:?}", op))), ("x", operand_json(tcx, o))]),
        )]),
        Rvalue::Discriminant(p) => J::obj(vec![("discr", place_json(p))]),
        Rvalue::Aggregate(kind, ops) => {
            let ops_j = J::Arr(ops.iter().map(|o| operand_json(tcx, o)).collect());
            let mut v: Vec<(&str, J)> = Vec::new();
            match &**kind {
                AggregateKind::Tuple => v.push(("kind", J::s("tuple"))),
                AggregateKind::Array(t) => {
                    v.push(("kind", J::s("array")));
                    v.push(("elem", ty_json(tcx, *t)));
                }
                AggregateKind::Adt(did, variant, args, _, active) => {
                    v.push(("kind", J::s("adt")));
                    v.push(("path", J::s(crate::dps(tcx, *did))));
                    v.push(("local", J::Bool(did.is_local())));
                    v.push(("variant", J::Num(variant.as_usize() as i128)));
                    let adt = tcx.adt_def(*did);
                    v.push(("variant_name", J::s(adt.variant(*variant).name.to_string())));
                    v.push(("args", args_json(tcx, args)));
                    if let Some(a) = active {
                        v.push(("active_field", J::Num(a.as_usize() as i128)));
                    }
                }
                AggregateKind::Closure(did, args) => {
                    v.push(("kind", J::s("closure")));
                    v.push(("body", J::s(crate::dps(tcx, *did))));
                    let _ = args;
                }
                other => {
                    v.push(("kind", J::s("other")));
                    v.push(("s", J::s(format!("{:?}", other))));
                }
            }
            v.push(("ops", ops_j));
            J::obj(vec![("agg", J::obj(v))])
        }
        other => J::obj(vec![("other", J::s(format!("{:?}", other)))]),
    }
}

fn unwind_json(u: &UnwindAction) -> J {
    match u {
        UnwindAction::Continue => J::s("continue"),
        UnwindAction::Unreachable => J::s("unreachable"),
        UnwindAction::Terminate(_) => J::s("terminate"),
        UnwindAction::Cleanup(bb) => J::s(format!("cleanup:{}", bb.as_usize())),
    }
}

pub fn callee_json<'tcx>(
    tcx: TyCtxt<'tcx>,
    env: ty::TypingEnv<'tcx>,
    did: DefId,
    args: GenericArgsRef<'tcx>,
) -> J {
    let mut v: Vec<(&str, J)> = vec![
        ("def", J::s(crate::dps(tcx, did))),
        ("crate", J::s(crate_of(tcx, did))),
        ("name", J::s(tcx.item_name(did).to_string())),
        ("args", args_json(tcx, args)),
        ("s", J::s(crate::dpsa(tcx, did, args))),
    ];
    let unsafe_ = matches!(tcx.def_kind(did), DefKind::Fn | DefKind::AssocFn)
        && tcx.fn_sig(did).skip_binder().safety().is_unsafe();
    v.push(("unsafe", J::Bool(unsafe_)));
    if let Some(tr) = tcx.trait_of_assoc(did) {
        v.push(("trait", J::s(crate::dps(tcx, tr))));
    }
    if let Some(imp) = tcx.inherent_impl_of_assoc(did) {
        let st = tcx.type_of(imp).instantiate_identity().skip_norm_wip();
        v.push(("impl_self", ty_json(tcx, st)));
    }
    match ty::Instance::try_resolve(tcx, env, did, args) {
        Ok(Some(inst)) => {
            let rd = inst.def_id();
            let kind = match inst.def {
                ty::InstanceKind::Item(_) => "item",
                ty::InstanceKind::Intrinsic(_) => "intrinsic",
                ty::InstanceKind::Virtual(..) => "virtual",
                _ => "shim",
            };
            v.push(("resolved", J::s(kind)));
            v.push(("rdef", J::s(crate::dps(tcx, rd))));
            v.push(("rcrate", J::s(crate_of(tcx, rd))));
            v.push(("rargs", args_json(tcx, inst.args)));
            v.push(("shim", J::s(format!("{:?}", inst.def).split('(').next().unwrap_or(""))));
            if rd.is_local() && matches!(inst.def, ty::InstanceKind::Item(_)) {
                v.push(("local_body", J::s(crate::dps(tcx, rd))));
            }
            if let Some(imp) = tcx.impl_of_assoc(rd) {
                let st = tcx.type_of(imp).instantiate_identity().skip_norm_wip();
                v.push(("rimpl_self", ty_json(tcx, st)));
            }
        }
        Ok(None) => v.push(("resolved", J::s("unresolved"))),
        Err(_) => v.push(("resolved", J::s("error"))),
    }
    J::obj(v)
}

pub fn dump_body<'tcx>(tcx: TyCtxt<'tcx>, ldid: LocalDefId) -> J {
    let did = ldid.to_def_id();
    let kind = tcx.def_kind(did);
    let body: &Body<'tcx> = if matches!(kind, DefKind::Fn | DefKind::AssocFn | DefKind::Closure) {
        tcx.optimized_mir(did)
    } else {
        tcx.mir_for_ctfe(did)
    };
    let env = ty::TypingEnv::post_analysis(tcx, did);
    let mut v: Vec<(&str, J)> = Vec::new();
    v.push(("id", J::s(crate::dps(tcx, did))));
    v.push(("kind", J::s(format!("{:?}", kind))));
    let root = tcx.typeck_root_def_id(did);
    if root != did {
        v.push(("parent", J::s(crate::dps(tcx, root))));
    }
    if matches!(kind, DefKind::Fn | DefKind::AssocFn) {
        v.push(("name", J::s(tcx.item_name(did).to_string())));
        v.push(("reachable", J::Bool(tcx.effective_visibilities(()).is_reachable(ldid))));
        v.push(("vis_pub", J::Bool(tcx.visibility(did).is_public())));
        v.push(("unsafe", J::Bool(tcx.fn_sig(did).skip_binder().safety().is_unsafe())));
        let sig = tcx.fn_sig(did).instantiate_identity().skip_norm_wip().skip_binder();
        v.push(("sig_inputs", J::Arr(sig.inputs().iter().map(|t| ty_json(tcx, *t)).collect())));
        v.push(("sig_output", ty_json(tcx, sig.output())));
        v.push(("sig_s", J::s(format!("{:?}", sig))));
    }
    if let Some(imp) = tcx.impl_of_assoc(did) {
        let st = tcx.type_of(imp).instantiate_identity().skip_norm_wip();
        let mut iv: Vec<(&str, J)> =
            vec![("self", ty_json(tcx, st)), ("self_s", J::s(st.to_string()))];
        if tcx.impl_opt_trait_ref(imp).is_some() {
            let tr = tcx.impl_trait_ref(imp).instantiate_identity().skip_norm_wip();
            iv.push(("trait", J::s(crate::dps(tcx, tr.def_id))));
            iv.push(("trait_s", J::s(tr.to_string())));
            iv.push(("trait_args", args_json(tcx, tr.args)));
        }
        v.push(("impl", J::obj(iv)));
    }
    let gens = tcx.generics_of(did);
    let mut gnames = Vec::new();
    let mut g = Some(gens);
    let mut chain = Vec::new();
    while let Some(gg) = g {
        chain.push(gg);
        g = gg.parent.map(|p| tcx.generics_of(p));
    }
    for gg in chain.iter().rev() {
        for p in &gg.own_params {
            let kind = match p.kind {
                ty::GenericParamDefKind::Lifetime => "lifetime",
                ty::GenericParamDefKind::Type { .. } => "type",
                ty::GenericParamDefKind::Const { .. } => "const",
            };
            gnames.push(J::obj(vec![("name", J::s(p.name.to_string())), ("kind", J::s(kind))]));
        }
    }
    v.push(("generics", J::Arr(gnames)));
    v.push(("span", span_json(tcx, tcx.def_span(did))));
    v.push(("arg_count", J::Num(body.arg_count as i128)));

    // local names
    let mut names: Vec<Option<String>> = vec![None; body.local_decls.len()];
    for vdi in &body.var_debug_info {
        if let VarDebugInfoContents::Place(p) = &vdi.value {
            if p.projection.is_empty() {
                names[p.local.as_usize()] = Some(vdi.name.to_string());
            }
        }
    }
    let mut locals = Vec::new();
    for (i, d) in body.local_decls.iter().enumerate() {
        locals.push(J::obj(vec![
            ("ty", ty_json(tcx, d.ty)),
            ("s", J::s(crate::tys(d.ty))),
            ("name", names[i].clone().map(J::s).unwrap_or(J::Null)),
            ("needs_drop", J::Bool(d.ty.needs_drop(tcx, env))),
        ]));
    }
    v.push(("locals", J::Arr(locals)));

    let mut walker = Walker::new(tcx, env);
    let mut blocks = Vec::new();
    for (_bb, data) in body.basic_blocks.iter_enumerated() {
        blocks.push(block_json(tcx, env, body, data, &mut walker));
    }
    v.push(("blocks", J::Arr(blocks)));
    J::obj(v)
}

fn block_json<'tcx>(
    tcx: TyCtxt<'tcx>,
    env: ty::TypingEnv<'tcx>,
    body: &Body<'tcx>,
    data: &BasicBlockData<'tcx>,
    walker: &mut Walker<'tcx>,
) -> J {
    let mut stmts = Vec::new();
    for s in &data.statements {
        match &s.kind {
            StatementKind::Assign(b) => {
                let (p, rv) = &**b;
                stmts.push(J::obj(vec![
                    ("k", J::s("assign")),
                    ("place", place_json(p)),
                    ("rv", rvalue_json(tcx, rv)),
                    ("span", span_json(tcx, s.source_info.span)),
                ]));
            }
            StatementKind::SetDiscriminant { place, variant_index } => {
                stmts.push(J::obj(vec![
                    ("k", J::s("setdiscr")),
                    ("place", place_json(place)),
                    ("variant", J::Num(variant_index.as_usize() as i128)),
                ]));
            }
            StatementKind::StorageLive(l) => {
                stmts.push(J::obj(vec![("k", J::s("live")), ("local", J::Num(l.as_usize() as i128))]))
            }
            StatementKind::StorageDead(l) => {
                stmts.push(J::obj(vec![("k", J::s("dead")), ("local", J::Num(l.as_usize() as i128))]))
            }
            StatementKind::Intrinsic(i) => stmts.push(J::obj(vec![
                ("k", J::s("intrinsic")),
                ("s", J::s(format!("{:?}", i))),
            ])),
            StatementKind::Nop
            | StatementKind::FakeRead(..)
            | StatementKind::PlaceMention(..)
            | StatementKind::AscribeUserType(..)
            | StatementKind::Coverage(..)
            | StatementKind::ConstEvalCounter
            | StatementKind::BackwardIncompatibleDropHint { .. } => {}
            #[allow(unreachable_patterns)]
            other => stmts.push(J::obj(vec![
                ("k", J::s("otherstmt")),
                ("s", J::s(format!("{:?}", other))),
            ])),
        }
    }
    let term = data.terminator();
    let tspan = span_json(tcx, term.source_info.span);
    let from_exp = term.source_info.span.from_expansion();
    let tj = match &term.kind {
        TerminatorKind::Goto { target } => {
            J::obj(vec![("k", J::s("goto")), ("target", J::Num(target.as_usize() as i128))])
        }
        TerminatorKind::SwitchInt { discr, targets } => {
            let mut ts = Vec::new();
            for (val, bb) in targets.iter() {
                ts.push(J::Arr(vec![J::s(val.to_string()), J::Num(bb.as_usize() as i128)]));
            }
            let dty = discr.ty(body, tcx);
            J::obj(vec![
                ("k", J::s("switch")),
                ("discr", operand_json(tcx, discr)),
                ("discr_ty", ty_json(tcx, dty)),
                ("targets", J::Arr(ts)),
                ("otherwise", J::Num(targets.otherwise().as_usize() as i128)),
            ])
        }
        TerminatorKind::UnwindResume => J::obj(vec![("k", J::s("resume"))]),
        TerminatorKind::UnwindTerminate(_) => J::obj(vec![("k", J::s("terminate"))]),
        TerminatorKind::Return => J::obj(vec![("k", J::s("return"))]),
        TerminatorKind::Unreachable => J::obj(vec![("k", J::s("unreachable"))]),
        TerminatorKind::Drop { place, target, unwind, .. } => {
            let pty = place.ty(body, tcx).ty;
            let eff = walker.drop_effects(pty);
            J::obj(vec![
                ("k", J::s("drop")),
                ("place", place_json(place)),
                ("ty", ty_json(tcx, pty)),
                ("ty_s", J::s(crate::tys(pty))),
                ("target", J::Num(target.as_usize() as i128)),
                ("unwind", unwind_json(unwind)),
                ("effects", eff),
                ("span", tspan),
            ])
        }
        TerminatorKind::Call { func, args, destination, target, unwind, .. } => {
            let fty = func.ty(body, tcx);
            let (callee, eff) = match fty.kind() {
                ty::FnDef(did, gargs) => {
                    (callee_json(tcx, env, *did, gargs), walker.call_effects(*did, gargs))
                }
                _ => (
                    J::obj(vec![
                        ("def", J::s("<indirect>")),
                        ("resolved", J::s("indirect")),
                        ("fn_operand", operand_json(tcx, func)),
                        ("s", J::s(fty.to_string())),
                    ]),
                    walker.indirect_effects(fty),
                ),
            };
            J::obj(vec![
                ("k", J::s("call")),
                ("callee", callee),
                ("operands", J::Arr(args.iter().map(|a| operand_json(tcx, &a.node)).collect())),
                ("dest", place_json(destination)),
                ("target", target.map(|t| J::Num(t.as_usize() as i128)).unwrap_or(J::Null)),
                ("unwind", unwind_json(unwind)),
                ("effects", eff),
                ("span", tspan),
                ("from_expansion", J::Bool(from_exp)),
            ])
        }
        TerminatorKind::Assert { cond, expected, msg, target, unwind } => {
            use rustc_middle::mir::AssertKind;
            let (mk, mops): (String, Vec<J>) = match &**msg {
                AssertKind::BoundsCheck { len, index } => (
                    "bounds".to_string(),
                    vec![operand_json(tcx, len), operand_json(tcx, index)],
                ),
                AssertKind::Overflow(op, a, b) => (
                    format!("overflow:{:?}", op),
                    vec![operand_json(tcx, a), operand_json(tcx, b)],
                ),
                other => (format!("other:{:?}", other), vec![]),
            };
            J::obj(vec![
                ("k", J::s("assert")),
                ("cond", operand_json(tcx, cond)),
                ("expected", J::Bool(*expected)),
                ("msg", J::s(mk)),
                ("msg_operands", J::Arr(mops)),
                ("target", J::Num(target.as_usize() as i128)),
                ("unwind", unwind_json(unwind)),
                ("span", tspan),
            ])
        }
        TerminatorKind::FalseEdge { real_target, .. } => {
            J::obj(vec![("k", J::s("goto")), ("target", J::Num(real_target.as_usize() as i128))])
        }
        TerminatorKind::FalseUnwind { real_target, .. } => {
            J::obj(vec![("k", J::s("goto")), ("target", J::Num(real_target.as_usize() as i128))])
        }
        other => J::obj(vec![("k", J::s("otherterm")), ("s", J::s(format!("{:?}", other)))]),
    };
    J::obj(vec![
        ("cleanup", J::Bool(data.is_cleanup)),
        ("stmts", J::Arr(stmts)),
        ("term", tj),
    ])
}
