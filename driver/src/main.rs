//! mmdrv — fact driver for the micromap static checks (engine E1 of /verif/DESIGN.md).
//!
//! Used as RUSTC_WORKSPACE_WRAPPER under `cargo +nightly check`: argv = [mmdrv, rustc, args...].
//! For the crate named by $MMDRV_CRATE (default `micromap`) it writes, after analysis, one JSON
//! file ($MMDRV_OUT) with the structured MIR of every local body, the resolved callee and the
//! *effect closure* of every call/drop site, and crate-level facts.  Everything else is compiled
//! by the unmodified rustc pipeline.

#![feature(rustc_private)]
#![allow(rustc::internal)]

extern crate rustc_abi;
extern crate rustc_data_structures;
extern crate rustc_driver;
extern crate rustc_hir;
extern crate rustc_interface;
extern crate rustc_middle;
extern crate rustc_session;
extern crate rustc_span;

mod effects;
mod json;
mod mirjson;

use json::J;
use rustc_driver::{Callbacks, Compilation};
use rustc_hir::def::DefKind;
use rustc_interface::interface::Compiler;
use rustc_middle::ty::{self, TyCtxt};

/// Canonical definition path (no re-export / trimmed printing), stable across std / no_std builds.
pub fn dps<'tcx>(tcx: TyCtxt<'tcx>, did: rustc_span::def_id::DefId) -> String {
    use rustc_middle::ty::print::{with_no_trimmed_paths, with_no_visible_paths};
    with_no_visible_paths!(with_no_trimmed_paths!(tcx.def_path_str(did)))
}
pub fn dpsa<'tcx>(
    tcx: TyCtxt<'tcx>,
    did: rustc_span::def_id::DefId,
    args: ty::GenericArgsRef<'tcx>,
) -> String {
    use rustc_middle::ty::print::{with_no_trimmed_paths, with_no_visible_paths};
    with_no_visible_paths!(with_no_trimmed_paths!(tcx.def_path_str_with_args(did, args)))
}
pub fn tys<'tcx>(t: ty::Ty<'tcx>) -> String {
    use rustc_middle::ty::print::{with_no_trimmed_paths, with_no_visible_paths};
    with_no_visible_paths!(with_no_trimmed_paths!(t.to_string()))
}

struct Drv {
    out: String,
    krate: String,
    nonce: String,
    config: String,
}

impl Callbacks for Drv {
    fn after_analysis<'tcx>(&mut self, _c: &Compiler, tcx: TyCtxt<'tcx>) -> Compilation {
        let name = tcx.crate_name(rustc_span::def_id::LOCAL_CRATE).to_string();
        if name != self.krate {
            return Compilation::Continue;
        }
        let j = {
            use rustc_middle::ty::print::{with_no_trimmed_paths, with_no_visible_paths};
            with_no_visible_paths!(with_no_trimmed_paths!(dump_crate(tcx, &self.nonce, &self.config)))
        };
        let mut s = String::new();
        j.write(&mut s);
        // one write per process
        std::fs::write(&self.out, s).expect("mmdrv: cannot write fact file");
        Compilation::Continue
    }
}

fn main() {
    let mut args: Vec<String> = std::env::args().collect();
    // wrapper mode: drop our own name, keep the rustc path as argv[0]
    args.remove(0);
    let out = std::env::var("MMDRV_OUT").unwrap_or_default();
    let krate = std::env::var("MMDRV_CRATE").unwrap_or_else(|_| "micromap".to_string());
    let nonce = std::env::var("MMDRV_NONCE").unwrap_or_default();
    let config = std::env::var("MMDRV_CONFIG").unwrap_or_default();
    let mut d = Drv { out, krate, nonce, config };
    if d.out.is_empty() {
        // no fact file requested: behave like rustc
        struct Nop;
        impl Callbacks for Nop {}
        rustc_driver::run_compiler(&args, &mut Nop);
        return;
    }
    rustc_driver::run_compiler(&args, &mut d);
}

fn dump_crate<'tcx>(tcx: TyCtxt<'tcx>, nonce: &str, config: &str) -> J {
    let mut bodies = Vec::new();
    let mut keys: Vec<_> = tcx.mir_keys(()).iter().copied().collect();
    keys.sort_by_key(|k| dps(tcx, k.to_def_id()));
    for ldid in keys {
        let did = ldid.to_def_id();
        let kind = tcx.def_kind(did);
        if !matches!(
            kind,
            DefKind::Fn | DefKind::AssocFn | DefKind::Closure | DefKind::InlineConst | DefKind::AnonConst
        ) {
            continue;
        }
        bodies.push(mirjson::dump_body(tcx, ldid));
    }
    J::obj(vec![
        ("nonce", J::s(nonce)),
        ("config", J::s(config)),
        ("rustc", J::s(option_env!("CFG_VERSION").unwrap_or("nightly"))),
        ("crate", crate_facts(tcx)),
        ("bodies", J::Arr(bodies)),
    ])
}

fn crate_facts<'tcx>(tcx: TyCtxt<'tcx>) -> J {
    use rustc_span::def_id::LOCAL_CRATE;
    let crates: Vec<J> =
        tcx.crates(()).iter().map(|c| J::s(tcx.crate_name(*c).to_string())).collect();
    let mut adts = Vec::new();
    let mut impls = Vec::new();
    let mut statics = Vec::new();
    let mut extern_crates = Vec::new();
    let ev = tcx.effective_visibilities(());
    for id in tcx.hir_free_items() {
        let ldid = id.owner_id.def_id;
        let did = ldid.to_def_id();
        match tcx.def_kind(did) {
            DefKind::Struct | DefKind::Enum | DefKind::Union => {
                let adt = tcx.adt_def(did);
                let mut variants = Vec::new();
                for v in adt.variants() {
                    let mut fields = Vec::new();
                    for f in &v.fields {
                        let fty = tcx.type_of(f.did).instantiate_identity().skip_norm_wip();
                        fields.push(J::obj(vec![
                            ("name", J::s(f.name.to_string())),
                            ("ty", mirjson::ty_json(tcx, fty)),
                            ("s", J::s(fty.to_string())),
                            ("pub", J::Bool(f.vis.is_public())),
                            (
                                "vis",
                                J::s(match f.vis {
                                    ty::Visibility::Public => "pub".to_string(),
                                    ty::Visibility::Restricted(m) => {
                                        format!("in:{}", crate::dps(tcx, m))
                                    }
                                }),
                            ),
                        ]));
                    }
                    variants.push(J::obj(vec![
                        ("name", J::s(v.name.to_string())),
                        ("fields", J::Arr(fields)),
                    ]));
                }
                let gens = tcx.generics_of(did);
                let mut gnames = Vec::new();
                for p in &gens.own_params {
                    let kind = match p.kind {
                        ty::GenericParamDefKind::Lifetime => "lifetime",
                        ty::GenericParamDefKind::Type { .. } => "type",
                        ty::GenericParamDefKind::Const { .. } => "const",
                    };
                    gnames.push(J::obj(vec![
                        ("name", J::s(p.name.to_string())),
                        ("kind", J::s(kind)),
                    ]));
                }
                let has_drop = adt.destructor(tcx).is_some();
                adts.push(J::obj(vec![
                    ("generics", J::Arr(gnames)),
                    ("has_drop", J::Bool(has_drop)),
                    ("path", J::s(crate::dps(tcx, did))),
                    ("kind", J::s(format!("{:?}", tcx.def_kind(did)))),
                    ("reachable", J::Bool(ev.is_reachable(ldid))),
                    ("repr_transparent", J::Bool(adt.repr().transparent())),
                    ("variants", J::Arr(variants)),
                    ("span", mirjson::span_json(tcx, tcx.def_span(did))),
                ]));
            }
            DefKind::Impl { of_trait } => {
                let self_ty = tcx.type_of(did).instantiate_identity().skip_norm_wip();
                let tr = if of_trait {
                    let tr = tcx.impl_trait_ref(did).instantiate_identity().skip_norm_wip();
                    J::obj(vec![
                        ("path", J::s(crate::dps(tcx, tr.def_id))),
                        ("s", J::s(tr.to_string())),
                    ])
                } else {
                    J::Null
                };
                let items: Vec<J> = tcx
                    .associated_item_def_ids(did)
                    .iter()
                    .map(|d| J::s(crate::dps(tcx, *d)))
                    .collect();
                impls.push(J::obj(vec![
                    ("trait", tr),
                    ("self", mirjson::ty_json(tcx, self_ty)),
                    ("self_s", J::s(self_ty.to_string())),
                    ("items", J::Arr(items)),
                    ("span", mirjson::span_json(tcx, tcx.def_span(did))),
                ]));
            }
            DefKind::Static { .. } => statics.push(J::s(crate::dps(tcx, did))),
            DefKind::ExternCrate => extern_crates.push(J::s(crate::dps(tcx, did))),
            _ => {}
        }
    }
    let attrs_no_std = tcx
        .hir_krate_attrs()
        .iter()
        .any(|a| a.has_name(rustc_span::sym::no_std) || format!("{:?}", a).contains("NoStd"));
    J::obj(vec![
        ("name", J::s(tcx.crate_name(LOCAL_CRATE).to_string())),
        ("no_std", J::Bool(attrs_no_std)),
        ("crates", J::Arr(crates)),
        ("adts", J::Arr(adts)),
        ("impls", J::Arr(impls)),
        ("statics", J::Arr(statics)),
        ("extern_crates", J::Arr(extern_crates)),
    ])
}
