"""./check <Cxx> [--tier quick|thorough] [--replay FILE]   (DESIGN.md §2.5, §8)"""
import argparse
import concurrent.futures
import hashlib
import json
import os
import shutil
import subprocess
import sys
import tempfile
import time

HERE = os.path.dirname(os.path.dirname(os.path.abspath(__file__)))
REPO = os.environ.get('VERIF_REPO', '/repo')
DRIVER = os.path.join(HERE, 'driver', 'target', 'release', 'mmdrv')

CONFIGS = {
    'A': [],
    'B': ['--release'],
    'C': ['--features', 'std'],
    'D': ['--features', 'serde'],
    'E': ['--features', 'std', '--release'],
    'F': ['--features', 'serde', '--release'],
}
CONFIG_DOC = {
    'A': 'default features (no_std), dev profile (debug assertions, overflow checks)',
    'B': 'default features, release profile (no debug assertions, wrapping arithmetic)',
    'C': 'feature std, dev profile',
    'D': 'feature serde, dev profile',
    'E': 'feature std, release profile',
    'F': 'feature serde, release profile (what sits inside debug_assert! is not executed)',
}


def sysroot_lib():
    out = subprocess.run(['rustc', '+nightly', '--print', 'sysroot'], capture_output=True, text=True, check=True)
    return os.path.join(out.stdout.strip(), 'lib')


def ensure_driver():
    if os.path.exists(DRIVER):
        return
    env = dict(os.environ, CARGO_NET_OFFLINE='true')
    subprocess.run(['cargo', 'build', '--release', '--offline'], cwd=os.path.join(HERE, 'driver'), env=env,
                   check=True, stdout=subprocess.DEVNULL, stderr=subprocess.DEVNULL)


def run_driver(cfg, workdir, repo=None, crate='micromap'):
    """cargo +nightly check with mmdrv as the workspace wrapper, fresh target dir; returns fact path"""
    repo = repo or REPO
    out = os.path.join(workdir, 'facts_%s.json' % cfg)
    target = os.path.join(workdir, 'target_%s' % cfg)
    nonce = hashlib.sha1(('%s-%s-%s' % (cfg, time.time(), os.getpid())).encode()).hexdigest()[:16]
    env = dict(os.environ)
    env.update({
        'LD_LIBRARY_PATH': sysroot_lib() + (':' + env['LD_LIBRARY_PATH'] if env.get('LD_LIBRARY_PATH') else ''),
        'RUSTFLAGS': '-Zmir-opt-level=0 --cap-lints=allow',
        'RUSTC_WORKSPACE_WRAPPER': DRIVER,
        'MMDRV_OUT': out, 'MMDRV_NONCE': nonce, 'MMDRV_CONFIG': cfg, 'MMDRV_CRATE': crate,
        'CARGO_TARGET_DIR': target, 'CARGO_NET_OFFLINE': 'true',
    })
    env.pop('RUSTC_WRAPPER', None)
    cmd = ['cargo', '+nightly', 'check', '--lib', '--offline'] + CONFIGS[cfg]
    p = subprocess.run(cmd, cwd=repo, env=env, capture_output=True, text=True)
    shutil.rmtree(target, ignore_errors=True)
    if p.returncode != 0 or not os.path.exists(out):
        raise RuntimeError('driver run failed for config %s:\n%s' % (cfg, p.stderr[-3000:]))
    with open(out) as f:
        head = f.read(200)
    if nonce not in head:
        raise RuntimeError('fact file for config %s was not produced by this run (nonce mismatch)' % cfg)
    return out


def gather(cfgs, jobs_total=16, select=None):
    """run the driver and the interpreter for the given configurations"""
    from . import run as runmod
    ensure_driver()
    work = tempfile.mkdtemp(prefix='mmcheck-')
    try:
        with concurrent.futures.ThreadPoolExecutor(len(cfgs)) as ex:
            paths = dict(zip(cfgs, ex.map(lambda c: run_driver(c, work), cfgs)))
        return runmod.analyse_configs(paths, jobs=jobs_total, select=select)
    finally:
        shutil.rmtree(work, ignore_errors=True)


def main(argv=None):
    from . import props
    ap = argparse.ArgumentParser(prog='check')
    ap.add_argument('property')
    ap.add_argument('--tier', default=os.environ.get('VERIF_TIER', 'quick'), choices=['quick', 'thorough'])
    ap.add_argument('--replay')
    ap.add_argument('--list', action='store_true')
    a = ap.parse_args(argv)
    seed = int(os.environ.get('VERIF_SEED', '0') or 0)
    sys.setrecursionlimit(20000)
    if a.property == 'ALL':
        # tool mode: which properties would report a violation (one analysis for all of them)
        import json
        print(json.dumps(props.fired_all(a.tier), indent=1))
        return 0
    if a.replay:
        return props.replay(a.property, a.replay)
    return props.run_check(a.property, a.tier, seed)


if __name__ == '__main__':
    sys.exit(main())
