"""Difference-bound matrices over usize terms (DESIGN.md §2.2, abstract state item 1).

A constraint is  x - y <= c  with x, y terms (Term objects) or the ZERO sentinel; integer
constants are folded into ZERO.  The matrix is kept closed (shortest paths) incrementally.
All terms are unsigned: ZERO - t <= 0 is added when a term is first mentioned.
"""
import itertools

_counter = itertools.count()


_INTERN = {}


class Term:
    """A symbolic usize.  Identity is the name; Terms are interned, so equality and hashing are
    by object identity (fast) while two Terms with the same name are still the same Term."""
    __slots__ = ('name',)

    def __new__(cls, name):
        t = _INTERN.get(name)
        if t is None:
            t = object.__new__(cls)
            t.name = name
            _INTERN[name] = t
        return t

    def __reduce__(self):
        return (Term, (self.name,))

    def __repr__(self):
        return self.name

    def __lt__(self, o):
        return self.name < o.name


def fresh(prefix='t'):
    return Term('%s%d' % (prefix, next(_counter)))


ZERO = Term('0')
WIDEN_THRESHOLDS = (-2, -1, 0, 1, 2)
INF = None


def _split(a):
    """term-or-int -> (var, offset) meaning var + offset"""
    if isinstance(a, int):
        return ZERO, a
    return a, 0


class Zone:
    __slots__ = ('d', 'vars', 'sat')

    def __init__(self):
        self.d = {}
        self.vars = {ZERO: None}      # insertion-ordered set (dict): iteration order is deterministic
        self.sat = True

    def copy(self):
        z = Zone.__new__(Zone)
        z.d = dict(self.d)
        z.vars = dict(self.vars)
        z.sat = self.sat
        return z

    # -- internals ---------------------------------------------------------
    def _touch(self, v):
        if v not in self.vars:
            self.vars[v] = None
            # unsigned: 0 - v <= 0
            self._add(ZERO, v, 0)

    def _get(self, x, y):
        if x == y:
            return 0
        return self.d.get((x, y))

    def _add(self, x, y, c):
        """x - y <= c, with closure"""
        if not self.sat:
            return
        if x == y:
            if c < 0:
                self.sat = False
            return
        old = self.d.get((x, y))
        if old is not None and old <= c:
            return
        # check consistency: y - x <= c'  and  c + c' < 0 -> unsat
        back = self.d.get((y, x))
        if back is not None and back + c < 0:
            self.sat = False
            return
        d = self.d
        d[(x, y)] = c
        vs = list(self.vars)
        # paths i -> x -> y -> j  (d[(i,j)] is bound on i - j)
        ix = [(i, 0 if i == x else d.get((i, x))) for i in vs]
        yj = [(j, 0 if j == y else d.get((y, j))) for j in vs]
        ix = [(i, v) for i, v in ix if v is not None]
        yj = [(j, v) for j, v in yj if v is not None]
        for i, a in ix:
            base = a + c
            for j, b in yj:
                if i == j:
                    if base + b < 0:
                        self.sat = False
                        return
                    continue
                n = base + b
                o = d.get((i, j))
                if o is None or n < o:
                    d[(i, j)] = n

    # -- public API ----------------------------------------------------------
    def touch(self, a):
        if isinstance(a, Term):
            self._touch(a)

    def add_le(self, a, b, c=0):
        """assert a - b <= c"""
        (x, xo), (y, yo) = _split(a), _split(b)
        self._touch(x)
        self._touch(y)
        self._add(x, y, c - xo + yo)
        return self.sat

    def add_lt(self, a, b):
        return self.add_le(a, b, -1)

    def add_eq(self, a, b, c=0):
        """assert a - b == c"""
        self.add_le(a, b, c)
        self.add_le(b, a, -c)
        return self.sat

    def entails_le(self, a, b, c=0):
        if not self.sat:
            return True
        (x, xo), (y, yo) = _split(a), _split(b)
        if x not in self.vars or y not in self.vars:
            if x == y:
                return 0 <= c - xo + yo
            # unknown term: only unsignedness
            if x == ZERO and isinstance(y, Term):
                return 0 <= c - xo + yo
            return False
        v = self._get(x, y)
        return v is not None and v <= c - xo + yo

    def entails_lt(self, a, b):
        return self.entails_le(a, b, -1)

    def entails_eq(self, a, b, c=0):
        return self.entails_le(a, b, c) and self.entails_le(b, a, -c)

    def entails_ne(self, a, b):
        return self.entails_lt(a, b) or self.entails_lt(b, a)

    def can_be(self, fn, *args):
        """is the constraint consistent with the zone?"""
        z = self.copy()
        fn(z, *args)
        return z.sat

    def upper(self, a):
        (x, xo) = _split(a)
        if x == ZERO:
            return xo
        v = self._get(x, ZERO) if x in self.vars else None
        return None if v is None else v + xo

    def lower(self, a):
        (x, xo) = _split(a)
        if x == ZERO:
            return xo
        v = self._get(ZERO, x) if x in self.vars else 0
        return (0 if v is None else -v) + xo

    def has_strict_upper_term(self, a, c=1):
        """exists another term t with a + c <= t (so a + c cannot wrap)"""
        (x, xo) = _split(a)
        if x == ZERO:
            return True
        if x not in self.vars:
            return False
        for t in self.vars:
            if t == x:
                continue
            v = self.d.get((x, t))
            if v is not None and v + xo + c <= 0 and t != ZERO:
                return True
            if t == ZERO and v is not None:
                # constant upper bound far below usize::MAX
                return True
        return False

    def forget(self, terms):
        ts = set(terms) - {ZERO}
        if not ts:
            return
        for t in ts:
            self.vars.pop(t, None)
        self.d = {k: v for k, v in self.d.items() if k[0] not in ts and k[1] not in ts}

    def project(self, keep):
        keep = set(keep) | {ZERO}
        self.forget([v for v in self.vars if v not in keep])

    def remap(self, pairs, persistent):
        """new zone over {persistent terms} + {new terms}, where each new term is an alias of an old
        term or an integer (pairs: [(new Term, old Term | int)]).  O(m^2); closure is preserved
        because a closed matrix restricted to a subset of its variables (with aliases) is closed."""
        z = Zone()
        z.sat = self.sat
        if not self.sat:
            return z
        for _, o in pairs:
            if isinstance(o, Term):
                self._touch(o)
        src = {ZERO: (ZERO, 0)}
        for v in self.vars:
            if v is not ZERO and persistent(v):
                src[v] = (v, 0)
        for c, o in pairs:
            src[c] = (ZERO, o) if isinstance(o, int) else (o, 0)
        d = self.d
        nd = {}
        items = list(src.items())
        for a, (A, oa) in items:
            for b, (B, ob) in items:
                if a is b:
                    continue
                if A is B:
                    nd[(a, b)] = oa - ob
                else:
                    v = d.get((A, B))
                    if v is not None:
                        nd[(a, b)] = v + oa - ob
        z.d = nd
        z.vars = {v: None for v in src}
        return z

    def rename(self, mapping):
        """mapping: old Term -> new Term (bijective on the mapped part)"""
        f = lambda v: mapping.get(v, v)
        self.vars = {f(v): None for v in self.vars}
        self.d = {(f(x), f(y)): c for (x, y), c in self.d.items()}

    def join(self, other):
        """least upper bound (both closed)"""
        if not self.sat:
            return other.copy()
        if not other.sat:
            return self.copy()
        z = Zone()
        z.vars = {v: None for v in self.vars if v in other.vars}
        for (x, y), c in self.d.items():
            if x in z.vars and y in z.vars:
                o = other.d.get((x, y))
                if o is not None:
                    z.d[(x, y)] = max(c, o)
        return z

    def widen(self, newer):
        """keep only the constraints of self that newer still satisfies"""
        if not self.sat:
            return newer.copy()
        if not newer.sat:
            return self.copy()
        z = Zone()
        z.vars = {v: None for v in self.vars if v in newer.vars}
        for (x, y), c in self.d.items():
            if x in z.vars and y in z.vars:
                o = newer.d.get((x, y))
                if o is None:
                    continue
                if o <= c:
                    z.d[(x, y)] = c
                else:
                    # unstable bound: relax to the next threshold instead of dropping it
                    for t in WIDEN_THRESHOLDS:
                        if t >= o:
                            z.d[(x, y)] = t
                            break
        return z

    def leq(self, other):
        """self entails every constraint of other (self is at least as strong)"""
        if not self.sat:
            return True
        if not other.sat:
            return False
        for (x, y), c in other.d.items():
            if x not in self.vars or y not in self.vars:
                # constraint on a var we do not know: only 0 - v <= 0 is free
                if x == ZERO and c >= 0:
                    continue
                return False
            v = self._get(x, y)
            if v is None or v > c:
                return False
        return True

    def facts(self, terms=None):
        out = []
        for (x, y), c in sorted(self.d.items(), key=lambda kv: (kv[0][0].name, kv[0][1].name)):
            if terms is not None and (x not in terms and y not in terms):
                continue
            if x == ZERO and c == 0:
                continue
            out.append('%s - %s <= %d' % (x, y, c))
        return out
