"""Behavioural outcome schemas (DESIGN.md §3), evaluated on the exits of the slot interpreter.

The tables below are written from the property statements: for every key-directed operation they
say, per class of path (key found at slot h / not found and appended / not found), what the
container must look like afterwards and what must be returned.  A path is classified from what
happened on it, not from the source text:

  hit(h)     user `==` answered true for (key of slot h, supplied key)            event 'hit'
  append     a slot joined the live prefix (len += 1 with a written slot)        event 'append'
  miss       every live key was compared with the supplied key, all answers no   MapState.examined

The schemas are checked on *every* normal-return path that the interpreter produced for the root
(generic K, V, N, arbitrary fill level, arbitrary answers of the user callbacks), in every build
configuration the property asks for.
"""
import collections

from .zone import Term
from .state import OPTION, RESULT, UNIT
from . import slots
from .interp import tag_eq


# ------------------------------------------------------------------------------ helpers
def root_key(body):
    """(self type path | None, trait short name | None, method name)"""
    imp = body.impl or {}
    tr = imp.get('trait')
    slf = imp.get('self') or {}
    path = slf.get('path')
    if path is None and slf.get('k') == 'ref':
        path = '&' + (slf['to'].get('path') or '?')
    return (path, tr.split('::')[-1].split('<')[0] if tr else None, body.name)


def vtag(v):
    """provenance tag of an abstract value (None when it has none)"""
    if not isinstance(v, tuple) or not v:
        return None
    if v[0] == 'opq':
        return v[1]
    if v[0] == 'unk':
        return v[2]
    if v[0] == 'tuple':
        return ('tuple',) + tuple(vtag(x) for x in v[1])
    return None


def is_none(v):
    return v[0] == 'adt' and v[1] == OPTION and v[2] == 0


def some_of(v):
    if v[0] == 'adt' and v[1] == OPTION and v[2] == 1:
        return v[3][0]
    return None


def is_bool(v, b):
    return v == ('bool', b)


def stored(mid, idx, f):
    return ('stored', mid, idx, f)


def slot_ref(v, z, mid, idx, sub):
    """v is a reference to field `sub` of the content of slot idx of container mid"""
    return (v[0] == 'ref' and v[2][0] == 'pair' and v[2][1] == mid and z.entails_eq(v[2][2], idx)
            and tuple(v[2][3]) == tuple(sub))


class Path:
    """one normal-return exit of a root, with the facts the schemas need"""

    def __init__(self, E, body, st, val, subjects, argtags):
        self.E = E
        self.body = body
        self.st = st
        self.z = st.zone
        self.val = val
        self.subjects = subjects
        self.arg = argtags
        self.mid = subjects[0] if subjects else None
        if self.mid is None:
            # receiver materialised lazily (an enum): the one caller-owned container of the path
            c = [m for m, ms in st.maps.items() if ms.borrowed and not ms.phantom and not ms.dead]
            if len(c) == 1:
                self.mid = c[0]
        self.ms = st.maps.get(self.mid) if self.mid else None
        ev = st.events
        self.events = ev
        self.hits = [e for e in ev if e[0] == 'hit' and e[1] == self.mid]
        self.appends = [e for e in ev if e[0] == 'append' and e[1] == self.mid]
        self.reads = [e for e in ev if e[0] == 'read' and e[1] == self.mid]
        self.writes = [e for e in ev if e[0] == 'write' and e[1] == self.mid]
        self.lens = [e for e in ev if e[0] == 'len' and e[1] == self.mid]
        self.user = [e for e in ev if e[0] == 'user']

    # --- state predicates
    def len_is(self, delta):
        ms = self.ms
        if ms.len0 is None:
            return False
        if delta >= 0:
            return self.z.entails_eq(ms.len, ms.len0, delta)
        return self.z.entails_eq(ms.len0, ms.len, -delta)

    def untouched(self):
        """no slot of the subject container was read out, written or re-tagged on this path"""
        return not self.ms.contents and not self.reads and not self.writes and not self.lens \
            and not self.ms.holes and not self.ms.extras

    def contents_are(self, expect):
        """expect: list of (idx, (ktag, vtag)); the recorded overrides are exactly these"""
        cs = list(self.ms.contents)
        if len(cs) != len(expect):
            return False
        for idx, tags in expect:
            found = False
            for (i, t) in cs:
                if self.z.entails_eq(i, idx):
                    found = tag_eq(self.z, t, tags)
            if not found:
                return False
        return True

    def miss(self):
        return self.E.miss_complete(self.st, self.mid)

    def describe(self):
        evs = [e for e in self.events if e[0] in ('hit', 'append', 'read', 'write', 'len', 'store', 'exhausted',
                                                  'len-jump')]
        return 'events=%s; container: %s contents=%s; returned %s' % (
            [tuple(str(x) for x in e) for e in evs][:8], self.ms.describe() if self.ms else None,
            [(str(i), t) for i, t in (self.ms.contents if self.ms else ())], short_val(self.val))


def short_val(v, depth=0):
    if not isinstance(v, tuple) or depth > 4:
        return str(v)
    if v and v[0] == 'adt':
        return '%s#%d(%s)' % (v[1].split('::')[-1], v[2], ', '.join(short_val(x, depth + 1) for x in v[3]))
    if v and v[0] == 'tuple':
        return '(%s)' % ', '.join(short_val(x, depth + 1) for x in v[1])
    return str(v)


# ------------------------------------------------------------------------------ schema evaluators
class Ctx:
    def __init__(self, E, body, props):
        self.E = E
        self.body = body
        self.props = props
        self.classes = collections.Counter()

    def req(self, rule, ok, prim, what, p, props=None):
        E = self.E
        E.oblig(rule, bool(ok), prim, what + ' -- ' + p.describe(), 'refuted', sample=prim + ' ok',
                props=sorted(props or self.props))
        return bool(ok)


def insertion(ctx, p, k, v, keep_key, absent, present, full_none=None):
    """find-or-append.  absent(idx) / present(h): predicates on the returned value."""
    E, z, ms = ctx.E, p.z, p.ms
    K, V = p.arg[k], (p.arg[v] if v is not None else ('tuple',))
    nm = ctx.body.name
    if p.appends:
        ctx.classes['append'] += 1
        a = p.appends[-1]
        ok = len(p.appends) == 1 and not p.hits
        ctx.req('OUT', ok, nm + ':append', 'a path both finds and appends, or appends twice', p)
        idx = a[2]
        ctx.req('ROUTE', tag_eq(z, a[3], K) and p.contents_are([(idx, (K, V))]), nm + ':append',
                'on the not-found path the new slot must hold exactly (supplied key, supplied value) '
                'and no other slot may change', p)
        ctx.req('OUT', p.len_is(1) and z.entails_eq(idx, ms.len0), nm + ':append',
                'on the not-found path len must grow by exactly one and the new entry sits at the old len', p)
        ctx.req('OUT', absent(p, idx), nm + ':append-result', 'wrong result for an absent key', p)
        return
    if p.hits:
        ctx.classes['hit'] += 1
        h = p.hits[-1]
        idx = h[2]
        ctx.req('SCAN', tag_eq(z, h[3], K), nm + ':hit', 'the matching comparison was not against the supplied key', p)
        want_k = K if keep_key is False else stored(p.mid, idx, 0)
        ok = p.contents_are([(idx, (want_k, V))])
        key_only = (not ok) and any(p.contents_are([(idx, (kk, V))]) for kk in (K, stored(p.mid, idx, 0)))
        ctx.req('ROUTE', ok, nm + ':hit',
                'on the found path slot h must hold (%s key, supplied value) and no other slot may change'
                % ('the supplied' if keep_key is False else 'the originally stored'), p,
                props=(ctx.props & {'C12', 'C18'}) if key_only else (ctx.props - {'C03'}))
        ctx.req('OUT', p.len_is(0), nm + ':hit', 'len must not change when the key is already present', p)
        ctx.req('OUT', present(p, idx), nm + ':hit-result', 'wrong result for a present key', p,
                props=ctx.props | {'C12'})
        return
    ctx.classes['neither'] += 1
    if full_none is not None:
        ok = tag_eq(z, p.miss(), K) or p.miss() == ('<empty>',)
        ctx.req('SCAN', ok, nm + ':full-miss', 'refusing the insertion requires a completed scan of the whole prefix '
                'for the supplied key', p)
        ctx.req('OUT', z.entails_eq(ms.len, ms.cap), nm + ':full-miss',
                'the insertion may be refused only when the container is full (len == N)', p,
                props=ctx.props | {'C03'})
        ctx.req('OUT', p.untouched() and p.len_is(0), nm + ':full-miss', 'a refused insertion must change nothing', p,
                props=ctx.props | {'C03'})
        ctx.req('OUT', full_none(p), nm + ':full-miss-result', 'wrong result for a refused insertion', p,
                props=ctx.props | {'C03'})
        return
    ctx.req('OUT', False, nm + ':neither',
            'the operation returns normally although the key was neither found nor appended '
            '(an insertion that is silently dropped)', p, props=ctx.props | {'C03'})


def removal(ctx, p, k, result_found, result_missing):
    E, z, ms = ctx.E, p.z, p.ms
    nm = ctx.body.name
    K = p.arg[k] if k is not None else None
    if p.hits or k is None:
        ctx.classes['hit'] += 1
        if k is not None:
            h = p.hits[-1]
            idx = h[2]
            ctx.req('SCAN', tag_eq(z, h[3], K), nm + ':hit', 'the matching comparison was not against the supplied key', p)
        else:
            idx = p.idx0
        last = ms.len      # len after the removal == index of the former last slot
        ok_len = p.len_is(-1)
        ctx.req('OUT', ok_len, nm + ':hit', 'removing a present key must decrease len by exactly one', p)
        first = p.reads[0] if p.reads else None
        ctx.req('OUT', first is not None and z.entails_eq(first[2], idx), nm + ':hit',
                'the slot moved out first must be the slot whose key matched', p)
        # compaction: either h was the last slot, or the former last slot now sits at h
        if z.entails_eq(idx, last):
            ok = p.contents_are([])
        else:
            ok = p.contents_are([(idx, (stored(p.mid, last, 0), stored(p.mid, last, 1)))])
        ctx.req('OUT', ok, nm + ':hit',
                'after removing slot h the former last entry must sit at h (or h was the last) and nothing else '
                'may change', p)
        ctx.req('OUT', result_found(p, idx), nm + ':hit-result', 'wrong result for a present key', p,
                props=ctx.props | {'C12'})
        return
    ctx.classes['miss'] += 1
    m = p.miss()
    ctx.req('SCAN', tag_eq(z, m, K) or m == ('<empty>',), nm + ':miss',
            '"not found" requires that every live key was compared with the supplied key', p)
    ctx.req('OUT', p.untouched() and p.len_is(0), nm + ':miss', 'a failed removal must change nothing', p)
    ctx.req('OUT', result_missing(p), nm + ':miss-result', 'wrong result for an absent key', p)


def lookup(ctx, p, k, result_found, result_missing):
    E, z = ctx.E, p.z
    nm = ctx.body.name
    K = p.arg[k]
    ctx.req('OUT', p.untouched() and p.len_is(0), nm, 'a lookup must not change the container', p)
    if p.hits:
        ctx.classes['hit'] += 1
        h = p.hits[-1]
        ctx.req('SCAN', tag_eq(z, h[3], K), nm + ':hit', 'the matching comparison was not against the supplied key', p)
        ctx.req('OUT', result_found(p, h[2]), nm + ':hit-result',
                'the result for a present key must come from the slot whose key matched', p, props=ctx.props | {'C12'})
        return
    ctx.classes['miss'] += 1
    m = p.miss()
    ctx.req('SCAN', tag_eq(z, m, K) or m == ('<empty>',), nm + ':miss',
            '"not found" requires that every live key was compared with the supplied key', p)
    if result_missing is None:
        ctx.req('OUT', False, nm + ':miss-result', 'must not return normally for an absent key', p)
    else:
        ctx.req('OUT', result_missing(p), nm + ':miss-result', 'wrong result for an absent key', p)


# ------------------------------------------------------------------------------ result predicates
def r_none(p, *_):
    return is_none(p.val)


def r_true(p, *_):
    return is_bool(p.val, True)


def r_false(p, *_):
    return is_bool(p.val, False)


def r_some_none(p, *_):
    s = some_of(p.val)
    return s is not None and is_none(s)


def r_some_old_value(p, h):
    s = some_of(p.val)
    return s is not None and tag_eq(p.z, vtag(s), stored(p.mid, h, 1))


def r_some_some_old_value(p, h):
    s = some_of(p.val)
    s2 = some_of(s) if s is not None else None
    return s2 is not None and tag_eq(p.z, vtag(s2), stored(p.mid, h, 1))


def r_some_old_pair(p, h):
    s = some_of(p.val)
    return s is not None and s[0] == 'tuple' and len(s[1]) == 2 \
        and tag_eq(p.z, vtag(s[1][0]), stored(p.mid, h, 0)) and tag_eq(p.z, vtag(s[1][1]), stored(p.mid, h, 1))


def r_some_old_key(p, h):
    s = some_of(p.val)
    return s is not None and tag_eq(p.z, vtag(s), stored(p.mid, h, 0))


def r_old_value(p, h):
    return tag_eq(p.z, vtag(p.val), stored(p.mid, h, 1))


def r_old_pair(p, h):
    s = p.val
    return s[0] == 'tuple' and len(s[1]) == 2 \
        and tag_eq(p.z, vtag(s[1][0]), stored(p.mid, h, 0)) and tag_eq(p.z, vtag(s[1][1]), stored(p.mid, h, 1))


def r_ref_value(p, h):
    return slot_ref(p.val, p.z, p.mid, h, (1,))


def r_some_ref_value(p, h):
    s = some_of(p.val)
    return s is not None and slot_ref(s, p.z, p.mid, h, (1,))


def r_some_ref_key(p, h):
    s = some_of(p.val)
    return s is not None and slot_ref(s, p.z, p.mid, h, (0,))


def r_some_ref_pair(p, h):
    s = some_of(p.val)
    return s is not None and s[0] == 'tuple' and len(s[1]) == 2 \
        and slot_ref(s[1][0], p.z, p.mid, h, (0,)) and slot_ref(s[1][1], p.z, p.mid, h, (1,))


# ------------------------------------------------------------------------------ the tables
MAP, SET = 'Map', 'set::Set'
OCC, VAC, ENT = 'entry::OccupiedEntry', 'entry::VacantEntry', 'entry::Entry'

INSERTIONS = {
    # root: (props, key arg, value arg, keep stored key?, result when absent, result when present, refused)
    (MAP, None, 'insert'): ({'C01', 'C12'}, 1, 2, True, r_none, r_some_old_value, None),
    (MAP, None, 'insert_key_value'): ({'C01', 'C12'}, 1, 2, False, r_none, r_some_old_pair, None),
    (MAP, None, 'checked_insert'): ({'C01', 'C12', 'C03'}, 1, 2, True, r_some_none, r_some_some_old_value, r_none),
    (MAP, None, 'insert_unchecked'): ({'C18', 'C12'}, 1, 2, True, r_none, r_some_old_value, None),
    (SET, None, 'insert'): ({'C07', 'C12'}, 1, None, True, r_true, r_false, None),
    (SET, None, 'replace'): ({'C07', 'C12'}, 1, None, False, r_none, r_some_old_key, None),
}

REMOVALS = {
    (MAP, None, 'remove'): ({'C01'}, 1, r_some_old_value, r_none),
    (MAP, None, 'remove_entry'): ({'C01', 'C12'}, 1, r_some_old_pair, r_none),
    (SET, None, 'remove'): ({'C07'}, 1, r_true, r_false),
    (SET, None, 'take'): ({'C07', 'C12'}, 1, r_some_old_key, r_none),
}

LOOKUPS = {
    (MAP, None, 'get'): ({'C01'}, 1, r_some_ref_value, r_none),
    (MAP, None, 'get_mut'): ({'C01'}, 1, r_some_ref_value, r_none),
    (MAP, None, 'get_key_value'): ({'C01', 'C12'}, 1, r_some_ref_pair, r_none),
    (MAP, None, 'contains_key'): ({'C01'}, 1, r_true, r_false),
    (MAP, 'Index', 'index'): ({'C01'}, 1, r_ref_value, None),
    (MAP, 'IndexMut', 'index_mut'): ({'C01'}, 1, r_ref_value, None),
    (SET, None, 'contains'): ({'C07'}, 1, r_true, r_false),
    (SET, None, 'get'): ({'C07', 'C12'}, 1, r_some_ref_key, r_none),
}


def subjects_of(E, st, args):
    """container ids reachable from each argument (entry state)"""
    out = []
    for a in args:
        found = []

        def walk(v, d=0):
            if not isinstance(v, tuple) or not v or d > 6:
                return
            if v[0] == 'map':
                found.append(v[1])
            elif v[0] == 'ref' and v[2][0] in ('O', 'L'):
                try:
                    walk(E.load(st, v[2], quiet=True), d + 1)
                except Exception:
                    pass
            elif v[0] == 'adt':
                for x in v[3]:
                    walk(x, d + 1)
            elif v[0] == 'tuple':
                for x in v[1]:
                    walk(x, d + 1)
        walk(a)
        out.append(found)
    return out


def arg_tags(body):
    """provenance tag of each parameter, by position (0 = receiver)"""
    out = {}
    for i in range(1, body.arg_count + 1):
        nm = body.locals[i].get('name') or ('arg%d' % i)
        out[i - 1] = ('arg', nm)
    return out



# ------------------------------------------------------------------------------ Entry API (C11)
def _user_calls(p, what):
    return [e for e in p.user if e[1].endswith(what)]


def entry_self(p):
    """entry-time value of the receiver (an Entry / OccupiedEntry / VacantEntry), refs followed"""
    v = p.self0
    return v


def occ_parts(v):
    """OccupiedEntry value -> index term"""
    if v[0] == 'adt' and v[1] == OCC and v[3][0][0] == 'int':
        return v[3][0][1]
    return None


def entry_variant(p):
    """which variant of Entry the path is about: ('occ', index) | ('vac', key tag) | None"""
    ent = p.E.facts.adts.get(ENT)
    names = [v['name'] for v in ent['variants']] if ent else ['Occupied', 'Vacant']
    selftag = p.arg[0]
    for e in p.events:
        if e[0] == 'variant' and e[1] == selftag:
            nm = names[e[2]]
            if nm == 'Occupied':
                return ('occ', p.variant_fields.get(e[2]))
            return ('vac', selftag + (e[2], 0, 'key'))
    return None


def h_entry(ctx, p):
    """Map::entry(k): Occupied(index of the slot whose key matched) / Vacant(k) after a full miss"""
    nm = 'entry'
    z = p.z
    K = p.arg[1]
    ent = p.E.facts.adts.get(ENT)
    names = [v['name'] for v in ent['variants']]
    ctx.req('OUT', p.untouched() and p.len_is(0), nm, 'entry() must not change the container', p)
    v = p.val
    isent = v[0] == 'adt' and v[1] == ENT
    if p.hits:
        ctx.classes['hit'] += 1
        h = p.hits[-1]
        ctx.req('SCAN', tag_eq(z, h[3], K), nm + ':hit', 'the matching comparison was not against the supplied key', p)
        ok = isent and names[v[2]] == 'Occupied' and occ_parts(v[3][0]) is not None \
            and z.entails_eq(occ_parts(v[3][0]), h[2])
        ctx.req('OUT', ok, nm + ':hit-result', 'a present key must give Occupied with the index of the matching slot', p)
        return
    ctx.classes['miss'] += 1
    m = p.miss()
    ctx.req('SCAN', tag_eq(z, m, K) or m == ('<empty>',), nm + ':miss',
            'Vacant requires that every live key was compared with the supplied key', p)
    ok = isent and names[v[2]] == 'Vacant' and v[3][0][0] == 'adt' and tag_eq(z, vtag(v[3][0][3][0]), K)
    ctx.req('OUT', ok, nm + ':miss-result', 'an absent key must give Vacant holding the supplied key', p)


def _vacant_insert(ctx, p, K, V, vprefix=None):
    """VacantEntry::insert semantics (through the ordinary find-or-append core)"""
    def absent(p, idx):
        return r_ref_value(p, idx)

    def present(p, h):
        return r_ref_value(p, h)
    p2 = p
    p2.arg = dict(p.arg)
    p2.arg['K'] = K
    p2.arg['V'] = V
    if vprefix is not None:
        # the value is whatever the closure returned: take its tag from the slot that was written
        cs = [t for (_, t) in p.ms.contents]
        got = cs[-1][1] if cs else None
        ok = isinstance(got, tuple) and len(got) >= 2 and got[0] == 'u' and got[1].endswith(vprefix)
        ctx.req('OUT', ok, ctx.body.name + ':value', 'the stored value must be the result of the closure / Default', p)
        p2.arg['V'] = got
    insertion(ctx, p2, 'K', 'V', True, absent, present, None)


def h_or_insert(kind):
    def h(ctx, p):
        nm = ctx.body.name
        ev = entry_variant(p)
        if ev is None:
            ctx.req('OUT', False, nm, 'cannot tell which Entry variant this path handles', p)
            return
        calls = _user_calls(p, 'call_once') + _user_calls(p, 'Default::default')
        if ev[0] == 'occ':
            ctx.classes['occupied'] += 1
            ctx.req('OUT', ev[1] is not None and r_ref_value(p, ev[1]) and p.untouched() and p.len_is(0), nm + ':occupied',
                    'on an occupied entry the result must be the existing value of that slot and nothing may change', p)
            ctx.req('ARMCALL', not calls, nm + ':occupied', 'the default closure must not run for an occupied entry', p)
            return
        ctx.classes['vacant'] += 1
        K = ev[1]
        if kind == 'value':
            ctx.req('ARMCALL', not calls, nm + ':vacant', 'no user closure is involved in or_insert', p)
            _vacant_insert(ctx, p, K, p.arg[1])
        else:
            want = 'Default::default' if kind == 'default' else 'call_once'
            ok = len(calls) == 1 and calls[0][1].endswith(want)
            if ok and kind in ('with', 'with_key'):
                ok = calls[0][2][0] == p.arg[1]
            if ok and kind == 'with_key':
                ok = p.E.tag_mentions(calls[0][2], K)
            ctx.req('ARMCALL', ok, nm + ':vacant',
                    'on a vacant entry the closure (or Default) must run exactly once%s'
                    % (' and receive the entry key' if kind == 'with_key' else ''), p)
            _vacant_insert(ctx, p, K, None, want)
    return h


def h_and_modify(ctx, p):
    nm = 'and_modify'
    ev = entry_variant(p)
    ent = p.E.facts.adts.get(ENT)
    names = [v['name'] for v in ent['variants']]
    calls = _user_calls(p, 'call_once')
    v = p.val
    isent = v[0] == 'adt' and v[1] == ENT
    if ev is None:
        ctx.req('OUT', False, nm, 'cannot tell which Entry variant this path handles', p)
        return
    if ev[0] == 'occ':
        ctx.classes['occupied'] += 1
        idx = ev[1]
        ok = len(calls) == 1 and calls[0][2][0] == p.arg[1] and idx is not None \
            and tag_eq(p.z, calls[0][2][1], ('tuple', ('slot', p.mid, idx, (1,))))
        ctx.req('ARMCALL', ok, nm + ':occupied',
                'on an occupied entry the closure must run exactly once, on the value of that slot', p)
        only_value = (not p.ms.contents) or p.contents_are(
            [(idx, (stored(p.mid, idx, 0), ('usermod', stored(p.mid, idx, 1))))])
        ctx.req('OUT', only_value and p.len_is(0) and not p.reads and not p.writes, nm + ':occupied',
                'and_modify may change nothing but the value of that slot', p)
        ok = isent and names[v[2]] == 'Occupied' and occ_parts(v[3][0]) is not None \
            and p.z.entails_eq(occ_parts(v[3][0]), idx)
        ctx.req('OUT', ok, nm + ':occupied-result', 'and_modify must hand back the same occupied entry', p)
        return
    ctx.classes['vacant'] += 1
    ctx.req('ARMCALL', not calls, nm + ':vacant', 'the closure must not run for a vacant entry', p)
    ok = isent and names[v[2]] == 'Vacant' and v[3][0][0] == 'adt' and tag_eq(p.z, vtag(v[3][0][3][0]), ev[1])
    ctx.req('OUT', ok and p.untouched() and p.len_is(0), nm + ':vacant-result',
            'and_modify on a vacant entry must hand back the same vacant entry and change nothing', p)


def h_occ(kind):
    def h(ctx, p):
        nm = ctx.body.name
        idx = occ_parts(p.self0) if p.self0 is not None else None
        if idx is None:
            ctx.req('OUT', False, nm, 'cannot resolve the OccupiedEntry receiver', p)
            return
        ctx.classes['occupied'] += 1
        if kind in ('key', 'get', 'get_mut', 'into_mut'):
            sub = (0,) if kind == 'key' else (1,)
            ctx.req('OUT', slot_ref(p.val, p.z, p.mid, idx, sub) and p.untouched() and p.len_is(0), nm,
                    'must return a reference to the %s of the entry\'s own slot and change nothing'
                    % ('key' if kind == 'key' else 'value'), p)
        elif kind == 'insert':
            ctx.req('ROUTE', p.contents_are([(idx, (stored(p.mid, idx, 0), p.arg[1]))]) and p.len_is(0)
                    and not p.reads and not p.writes, nm,
                    'must store the supplied value in the entry\'s own slot, keep its key, touch nothing else', p)
            ctx.req('OUT', r_old_value(p, idx), nm + ':result', 'must return the previous value of that slot', p)
        else:
            p.idx0 = idx
            removal(ctx, p, None, r_old_pair if kind == 'remove_entry' else r_old_value, None)
    return h


def h_vac_insert(ctx, p):
    v = p.self0
    if v is None or v[0] != 'adt' or v[1] != VAC:
        ctx.req('OUT', False, 'insert', 'cannot resolve the VacantEntry receiver', p)
        return
    _vacant_insert(ctx, p, vtag(v[3][0]), p.arg[1])


def h_vac_into_key(ctx, p):
    v = p.self0
    ok = v is not None and v[0] == 'adt' and tag_eq(p.z, vtag(p.val), vtag(v[3][0]))
    ctx.req('OUT', ok and p.untouched() and p.len_is(0), 'into_key', 'must return the key the entry was created with', p)


def _mk(fn, *a):
    return lambda ctx, p: fn(ctx, p, *a)


HANDLERS = {}
for _k, (_props, _kk, _vv, _keep, _abs, _pres, _ref) in INSERTIONS.items():
    HANDLERS[_k] = (_props, _mk(insertion, _kk, _vv, _keep, _abs, _pres, _ref))
for _k, (_props, _kk, _f, _m) in REMOVALS.items():
    HANDLERS[_k] = (_props, _mk(removal, _kk, _f, _m))
for _k, (_props, _kk, _f, _m) in LOOKUPS.items():
    HANDLERS[_k] = (_props, _mk(lookup, _kk, _f, _m))
HANDLERS.update({
    (MAP, None, 'entry'): ({'C11'}, h_entry),
    (ENT, None, 'or_insert'): ({'C11', 'C12'}, h_or_insert('value')),
    (ENT, None, 'or_insert_with'): ({'C11', 'C12'}, h_or_insert('with')),
    (ENT, None, 'or_insert_with_key'): ({'C11', 'C12'}, h_or_insert('with_key')),
    (ENT, None, 'or_default'): ({'C11', 'C12'}, h_or_insert('default')),
    (ENT, None, 'and_modify'): ({'C11'}, h_and_modify),
    (OCC, None, 'key'): ({'C11', 'C12'}, h_occ('key')),
    (OCC, None, 'get'): ({'C11'}, h_occ('get')),
    (OCC, None, 'get_mut'): ({'C11'}, h_occ('get_mut')),
    (OCC, None, 'into_mut'): ({'C11'}, h_occ('into_mut')),
    (OCC, None, 'insert'): ({'C11', 'C12'}, h_occ('insert')),
    (OCC, None, 'remove'): ({'C11'}, h_occ('remove')),
    (OCC, None, 'remove_entry'): ({'C11', 'C12'}, h_occ('remove_entry')),
    (VAC, None, 'insert'): ({'C11', 'C12'}, h_vac_insert),
    (VAC, None, 'into_key'): ({'C11', 'C12'}, h_vac_into_key),
})


def required_classes(key):
    if key in INSERTIONS:
        return {'hit', 'append'} | ({'neither'} if INSERTIONS[key][6] is not None else set())
    if key in REMOVALS:
        return {'hit', 'miss'}
    if key in LOOKUPS:
        return {'hit', 'miss'} if LOOKUPS[key][3] is not None else {'hit'}
    if key == (MAP, None, 'entry'):
        return {'hit', 'miss'}
    if key[0] == ENT:
        return {'occupied', 'vacant'}
    if key[0] == OCC:
        return {'occupied'}
    if key == (VAC, None, 'insert'):
        return {'hit', 'append'}
    return set()


def props_of_root(body):
    h = HANDLERS.get(root_key(body))
    return set(h[0]) if h else set()


def anchors(pid):
    """root keys whose schema serves property pid"""
    return sorted((k for k, (props, _) in HANDLERS.items() if pid in props), key=lambda k: tuple(str(x) for x in k))


def check_root(E, body, rr):
    key = root_key(body)
    digest = {'root_key': '%s/%s/%s' % key}
    if rr is None or getattr(rr, 'args', None) is None:
        return digest
    E.root = body.id
    E.chain = [body.id]
    E.cur_span = body.span
    E.in_unwind = False
    tags = arg_tags(body)
    subj = rr.subjects
    first = subj[0] if subj else []
    rets = [(s, v) for kind, s, v in rr.outcomes if kind == 'ret']
    h = HANDLERS.get(key)
    if h is not None:
        props, fn = h
        ctx = Ctx(E, body, set(props))
        # entry-time receiver, references followed
        self0 = None
        if rr.args:
            self0 = rr.args[0]
            d = 0
            while self0 is not None and self0[0] == 'ref' and d < 4:
                try:
                    self0 = E.load(rr.st0, self0[2], quiet=True)
                except Exception:
                    self0 = None
                d += 1
        for s, val in rets:
            p = Path(E, body, s, val, first, dict(tags))
            p.self0 = self0
            p.idx0 = None
            p.variant_fields = {}
            # Entry receivers: the index of the Occupied variant as materialised on this path
            for e in s.events:
                if e[0] == 'variant-val':
                    p.variant_fields[e[2]] = e[3]
            fn(ctx, p)
        digest['classes'] = dict(ctx.classes)
        digest['paths'] = len(rets)
        for c in sorted(required_classes(key)):
            E.oblig('OUT', ctx.classes.get(c, 0) > 0, body.name + ':class-' + c,
                    'no path of class "%s" was produced for this root: its schema would pass vacuously' % c,
                    'unproven', props=sorted(ctx.props), sample='%d paths of class %s' % (ctx.classes.get(c, 0), c))
        if not rets:
            E.oblig('OUT', False, body.name, 'the root has no normal-return path at all', 'unproven',
                    props=sorted(ctx.props))
    E.chain = []
    return digest
