"""Behavioural specification rules evaluated per root on the outcomes of the slot interpreter
(DESIGN.md §3).  Filled in incrementally; check_root returns a JSON-able digest."""


def check_root(E, body, rr):
    return {}
