"""Behavioural outcome schemas (DESIGN.md §3), evaluated on the exits of the slot interpreter.

The tables below are written from the property statements: for every key-directed operation they
say, per class of path (key found at slot h / not found and appended / not found), what the
container must look like afterwards and what must be returned.  A path is classified from what
happened on it, not from the source text:

  hit(h)     user `==` answered true for (key of slot h, supplied key)            event 'hit'
  append     a slot joined the live prefix (len += 1 with a written slot)        event 'append'
  miss       every live key was compared with the supplied key, all answers no   MapState.examined

The schemas are checked on *every* normal-return path that the interpreter produced for the root
(generic K, V, N, arbitrary fill level, arbitrary answers of the user callbacks), in every build
configuration the property asks for.
"""
import collections

from .zone import Term
from .state import OPTION, RESULT, UNIT
from . import slots
from .interp import tag_eq


# ------------------------------------------------------------------------------ helpers
def root_key(body):
    """(self type path | None, trait short name | None, method name)"""
    imp = body.impl or {}
    tr = imp.get('trait')
    slf = imp.get('self') or {}
    path = slf.get('path')
    if path is None and slf.get('k') == 'ref':
        path = '&' + (slf['to'].get('path') or '?')
    return (path, tr.split('::')[-1].split('<')[0] if tr else None, body.name)


def vtag(v):
    """provenance tag of an abstract value (None when it has none)"""
    if not isinstance(v, tuple) or not v:
        return None
    if v[0] == 'opq':
        return v[1]
    if v[0] == 'unk':
        return v[2]
    if v[0] == 'tuple':
        return ('tuple',) + tuple(vtag(x) for x in v[1])
    return None


def is_none(v):
    return v[0] == 'adt' and v[1] == OPTION and v[2] == 0


def some_of(v):
    if v[0] == 'adt' and v[1] == OPTION and v[2] == 1:
        return v[3][0]
    return None


def is_bool(v, b):
    return v == ('bool', b)


def stored(mid, idx, f):
    return ('stored', mid, idx, f)


def slot_ref(v, z, mid, idx, sub):
    """v is a reference to field `sub` of the content of slot idx of container mid"""
    return (v[0] == 'ref' and v[2][0] == 'pair' and v[2][1] == mid and z.entails_eq(v[2][2], idx)
            and tuple(v[2][3]) == tuple(sub))


class Path:
    """one normal-return exit of a root, with the facts the schemas need"""

    def __init__(self, E, body, st, val, subjects, argtags):
        self.E = E
        self.body = body
        self.st = st
        self.z = st.zone
        E.view_zone = st.zone       # (hand-written cursor handles are read under the facts of this path)
        self.val = val
        self.subjects = subjects
        self.arg = argtags
        self.mid = subjects[0] if subjects else None
        if self.mid is None:
            # receiver materialised lazily (an enum): the one caller-owned container of the path
            c = [m for m, ms in st.maps.items() if ms.borrowed and not ms.phantom and not ms.dead]
            if len(c) == 1:
                self.mid = c[0]
        self.ms = st.maps.get(self.mid) if self.mid else None
        ev = st.events
        self.events = ev
        self.hits = [e for e in ev if e[0] == 'hit' and e[1] == self.mid]
        self.appends = [e for e in ev if e[0] == 'append' and e[1] == self.mid]
        self.reads = [e for e in ev if e[0] == 'read' and e[1] == self.mid]
        self.writes = [e for e in ev if e[0] == 'write' and e[1] == self.mid]
        self.lens = [e for e in ev if e[0] == 'len' and e[1] == self.mid]
        self.user = [e for e in ev if e[0] == 'user']

    # --- state predicates
    def len_is(self, delta):
        ms = self.ms
        if ms.len0 is None:
            return False
        if delta >= 0:
            return self.z.entails_eq(ms.len, ms.len0, delta)
        return self.z.entails_eq(ms.len0, ms.len, -delta)

    def untouched(self):
        """no slot of the subject container was read out, written or re-tagged on this path"""
        return not self.ms.contents and not self.reads and not self.writes and not self.lens \
            and not self.ms.holes and not self.ms.extras and not self.ms.replaced

    def contents_are(self, expect):
        """expect: list of (idx, (ktag, vtag)); the recorded overrides are exactly these"""
        cs = list(self.ms.contents)
        if len(cs) != len(expect):
            return False
        if self.ms.replaced and not self.z.entails_eq(self.ms.len, len(cs)):
            return False        # a whole new value was assigned over the container: untracked slots are not the entry's
        for idx, tags in expect:
            found = False
            for (i, t) in cs:
                if self.z.entails_eq(i, idx):
                    found = tag_eq(self.z, t, tags)
            if not found:
                return False
        return True

    def miss(self):
        return self.E.miss_complete(self.st, self.mid)

    def describe(self):
        evs = [e for e in self.events if e[0] in ('hit', 'append', 'read', 'write', 'len', 'store', 'exhausted',
                                                  'len-jump')]
        return 'events=%s; container: %s contents=%s; returned %s' % (
            [tuple(str(x) for x in e) for e in evs][:8], self.ms.describe() if self.ms else None,
            [(str(i), t) for i, t in (self.ms.contents if self.ms else ())], short_val(self.val))


def short_val(v, depth=0):
    if not isinstance(v, tuple) or depth > 4:
        return str(v)
    if v and v[0] == 'adt':
        return '%s#%d(%s)' % (v[1].split('::')[-1], v[2], ', '.join(short_val(x, depth + 1) for x in v[3]))
    if v and v[0] == 'tuple':
        return '(%s)' % ', '.join(short_val(x, depth + 1) for x in v[1])
    return str(v)


# ------------------------------------------------------------------------------ schema evaluators
class Ctx:
    def __init__(self, E, body, props):
        self.E = E
        self.body = body
        self.props = props
        self.classes = collections.Counter()

    def req(self, rule, ok, prim, what, p, props=None):
        E = self.E
        E.oblig(rule, bool(ok), prim, what + ' -- ' + p.describe(), 'refuted',
                sample=('required: ' + what + ' | seen: ' + p.describe()[:400]) if len(E.samples[rule]) < 6 else None,
                props=sorted(props or self.props))
        return bool(ok)


def insertion(ctx, p, k, v, keep_key, absent, present, full_none=None):
    """find-or-append.  absent(idx) / present(h): predicates on the returned value."""
    E, z, ms = ctx.E, p.z, p.ms
    K, V = p.arg[k], (p.arg[v] if v is not None else ('tuple',))
    nm = ctx.body.name
    if p.appends:
        ctx.classes['append'] += 1
        a = p.appends[-1]
        ok = len(p.appends) == 1 and not p.hits
        ctx.req('OUT', ok, nm + ':append', 'a path both finds and appends, or appends twice', p)
        idx = a[2]
        ctx.req('ROUTE', tag_eq(z, a[3], K) and p.contents_are([(idx, (K, V))]), nm + ':append',
                'on the not-found path the new slot must hold exactly (supplied key, supplied value) '
                'and no other slot may change', p)
        ctx.req('OUT', p.len_is(1) and z.entails_eq(idx, ms.len0), nm + ':append',
                'on the not-found path len must grow by exactly one and the new entry sits at the old len', p)
        ctx.req('OUT', absent(p, idx), nm + ':append-result', 'wrong result for an absent key', p)
        z2 = z.copy()
        z2.add_eq(ms.cap, ms.len0, 1)
        if z2.sat:
            # this accepted append is consistent with "exactly one slot was free": the last slot is usable
            ctx.classes['append@last-slot'] += 1
        if not (ctx.body.unsafe and p.E.contract):
            ctx.req('CAP', z.entails_lt(ms.len0, ms.cap) and not p.st.assumed, nm + ':append',
                    'a new entry may be accepted (normal return) only when the container held fewer than N entries; '
                    'otherwise the call must not return normally', p, props=(ctx.props - {'C12'}) | {'C03'})
        return
    if p.hits:
        ctx.classes['hit'] += 1
        for n0 in p.st.notes:
            if n0[0] == 'contract':
                ctx.classes['hit@' + n0[1]] += 1
        h = p.hits[-1]
        idx = h[2]
        ctx.req('SCAN', tag_eq(z, h[3], K), nm + ':hit', 'the matching comparison was not against the supplied key', p)
        want_k = K if keep_key is False else stored(p.mid, idx, 0)
        ok = p.contents_are([(idx, (want_k, V))])
        key_only = (not ok) and any(p.contents_are([(idx, (kk, V))]) for kk in (K, stored(p.mid, idx, 0)))
        ctx.req('ROUTE', ok, nm + ':hit',
                'on the found path slot h must hold (%s key, supplied value) and no other slot may change'
                % ('the supplied' if keep_key is False else 'the originally stored'), p,
                # (which of two equal key objects stays stored is observable through iteration, get_key_value,
                #  Set::get: part of the reference-model properties too, whose model is the documented one --
                #  insert keeps the stored key, insert_key_value / replace store the new one)
                props=(ctx.props & {'C01', 'C07', 'C11', 'C12', 'C18'}) if key_only else ((ctx.props - {'C03'}) | {'C05'}))
        ctx.req('OUT', p.len_is(0), nm + ':hit', 'len must not change when the key is already present', p)
        ctx.req('OUT', present(p, idx), nm + ':hit-result', 'wrong result for a present key', p,
                props=ctx.props | {'C12'})
        return
    ctx.classes['neither'] += 1
    if full_none is not None:
        ok = tag_eq(z, p.miss(), K) or p.miss() == ('<empty>',)
        ctx.req('SCAN', ok, nm + ':full-miss', 'refusing the insertion requires a completed scan of the whole prefix '
                'for the supplied key', p)
        ctx.req('OUT', z.entails_eq(ms.len, ms.cap), nm + ':full-miss',
                'the insertion may be refused only when the container is full (len == N)', p,
                props=ctx.props | {'C03'})
        ctx.req('OUT', p.untouched() and p.len_is(0), nm + ':full-miss', 'a refused insertion must change nothing', p,
                props=ctx.props | {'C03'})
        ctx.req('OUT', full_none(p), nm + ':full-miss-result', 'wrong result for a refused insertion', p,
                props=ctx.props | {'C03'})
        return
    ctx.req('OUT', False, nm + ':neither',
            'the operation returns normally although the key was neither found nor appended '
            '(an insertion that is silently dropped)', p, props=ctx.props | {'C03'})


def removal(ctx, p, k, result_found, result_missing):
    E, z, ms = ctx.E, p.z, p.ms
    nm = ctx.body.name
    K = p.arg[k] if k is not None else None
    if p.hits or k is None:
        ctx.classes['hit'] += 1
        if k is not None:
            h = p.hits[-1]
            idx = h[2]
            ctx.req('SCAN', tag_eq(z, h[3], K), nm + ':hit', 'the matching comparison was not against the supplied key', p)
        else:
            idx = p.idx0
        last = ms.len      # len after the removal == index of the former last slot
        ok_len = p.len_is(-1)
        ctx.req('OUT', ok_len, nm + ':hit', 'removing a present key must decrease len by exactly one', p)
        first = p.reads[0] if p.reads else None
        # the pair moved out first must be the pair whose key matched: read from its own slot, or from wherever
        # a preceding exchange of slots has put it (the event records the content's origin)
        def _is_victim(e):
            if z.entails_eq(e[2], idx):
                return True
            c = e[3]
            return (isinstance(c, tuple) and len(c) == 2
                    and all(isinstance(x, tuple) and len(x) == 4 and x[0] == 'stored' and x[1] == p.mid
                            and z.entails_eq(x[2], idx) and x[3] == f for f, x in enumerate(c)))
        ctx.req('OUT', first is not None and _is_victim(first), nm + ':hit',
                'the pair moved out first must be the pair whose key matched', p)
        # compaction: either h was the last slot, or the former last slot now sits at h
        if z.entails_eq(idx, last):
            ok = p.contents_are([])
        else:
            ok = p.contents_are([(idx, (stored(p.mid, last, 0), stored(p.mid, last, 1)))])
        ctx.req('OUT', ok, nm + ':hit',
                'after removing slot h the former last entry must sit at h (or h was the last) and nothing else '
                'may change', p)
        ctx.req('OUT', result_found(p, idx), nm + ':hit-result', 'wrong result for a present key', p,
                props=ctx.props | {'C12'})
        return
    ctx.classes['miss'] += 1
    m = p.miss()
    ctx.req('SCAN', tag_eq(z, m, K) or m == ('<empty>',), nm + ':miss',
            '"not found" requires that every live key was compared with the supplied key', p)
    ctx.req('OUT', p.untouched() and p.len_is(0), nm + ':miss', 'a failed removal must change nothing', p)
    ctx.req('OUT', result_missing(p), nm + ':miss-result', 'wrong result for an absent key', p)


def lookup(ctx, p, k, result_found, result_missing):
    E, z = ctx.E, p.z
    nm = ctx.body.name
    K = p.arg[k]
    ctx.req('OUT', p.untouched() and p.len_is(0), nm, 'a lookup must not change the container', p)
    if p.hits:
        ctx.classes['hit'] += 1
        h = p.hits[-1]
        ctx.req('SCAN', tag_eq(z, h[3], K), nm + ':hit', 'the matching comparison was not against the supplied key', p)
        ctx.req('OUT', result_found(p, h[2]), nm + ':hit-result',
                'the result for a present key must come from the slot whose key matched', p, props=ctx.props | {'C12'})
        return
    ctx.classes['miss'] += 1
    m = p.miss()
    ctx.req('SCAN', tag_eq(z, m, K) or m == ('<empty>',), nm + ':miss',
            '"not found" requires that every live key was compared with the supplied key', p)
    if result_missing is None:
        ctx.req('OUT', False, nm + ':miss-result', 'must not return normally for an absent key', p)
    else:
        ctx.req('OUT', result_missing(p), nm + ':miss-result', 'wrong result for an absent key', p)


# ------------------------------------------------------------------------------ result predicates
def r_none(p, *_):
    return is_none(p.val)


def r_true(p, *_):
    return is_bool(p.val, True)


def r_false(p, *_):
    return is_bool(p.val, False)


def r_some_none(p, *_):
    s = some_of(p.val)
    return s is not None and is_none(s)


def r_some_old_value(p, h):
    s = some_of(p.val)
    return s is not None and tag_eq(p.z, vtag(s), stored(p.mid, h, 1))


def r_some_some_old_value(p, h):
    s = some_of(p.val)
    s2 = some_of(s) if s is not None else None
    return s2 is not None and tag_eq(p.z, vtag(s2), stored(p.mid, h, 1))


def r_some_old_pair(p, h):
    s = some_of(p.val)
    return s is not None and s[0] == 'tuple' and len(s[1]) == 2 \
        and tag_eq(p.z, vtag(s[1][0]), stored(p.mid, h, 0)) and tag_eq(p.z, vtag(s[1][1]), stored(p.mid, h, 1))


def r_some_old_key(p, h):
    s = some_of(p.val)
    return s is not None and tag_eq(p.z, vtag(s), stored(p.mid, h, 0))


def r_old_value(p, h):
    return tag_eq(p.z, vtag(p.val), stored(p.mid, h, 1))


def r_old_pair(p, h):
    s = p.val
    return s[0] == 'tuple' and len(s[1]) == 2 \
        and tag_eq(p.z, vtag(s[1][0]), stored(p.mid, h, 0)) and tag_eq(p.z, vtag(s[1][1]), stored(p.mid, h, 1))


def r_ref_value(p, h):
    return slot_ref(p.val, p.z, p.mid, h, (1,))


def r_some_ref_value(p, h):
    s = some_of(p.val)
    return s is not None and slot_ref(s, p.z, p.mid, h, (1,))


def r_some_ref_key(p, h):
    s = some_of(p.val)
    return s is not None and slot_ref(s, p.z, p.mid, h, (0,))


def r_some_ref_pair(p, h):
    s = some_of(p.val)
    return s is not None and s[0] == 'tuple' and len(s[1]) == 2 \
        and slot_ref(s[1][0], p.z, p.mid, h, (0,)) and slot_ref(s[1][1], p.z, p.mid, h, (1,))


# ------------------------------------------------------------------------------ the tables
MAP, SET = 'Map', 'set::Set'
OCC, VAC, ENT = 'entry::OccupiedEntry', 'entry::VacantEntry', 'entry::Entry'

INSERTIONS = {
    # root: (props, key arg, value arg, keep stored key?, result when absent, result when present, refused)
    (MAP, None, 'insert'): ({'C01', 'C12'}, 1, 2, True, r_none, r_some_old_value, None),
    (MAP, None, 'insert_key_value'): ({'C01', 'C12'}, 1, 2, False, r_none, r_some_old_pair, None),
    (MAP, None, 'checked_insert'): ({'C01', 'C12', 'C03'}, 1, 2, True, r_some_none, r_some_some_old_value, r_none),
    (MAP, None, 'insert_unchecked'): ({'C18', 'C12'}, 1, 2, True, r_none, r_some_old_value, None),
    (SET, None, 'insert'): ({'C07', 'C12'}, 1, None, True, r_true, r_false, None),
    (SET, None, 'replace'): ({'C07', 'C12'}, 1, None, False, r_none, r_some_old_key, None),
}

REMOVALS = {
    (MAP, None, 'remove'): ({'C01'}, 1, r_some_old_value, r_none),
    (MAP, None, 'remove_entry'): ({'C01', 'C12'}, 1, r_some_old_pair, r_none),
    (SET, None, 'remove'): ({'C07'}, 1, r_true, r_false),
    (SET, None, 'take'): ({'C07', 'C12'}, 1, r_some_old_key, r_none),
}

LOOKUPS = {
    (MAP, None, 'get'): ({'C01'}, 1, r_some_ref_value, r_none),
    (MAP, None, 'get_mut'): ({'C01'}, 1, r_some_ref_value, r_none),
    (MAP, None, 'get_key_value'): ({'C01', 'C12'}, 1, r_some_ref_pair, r_none),
    (MAP, None, 'contains_key'): ({'C01'}, 1, r_true, r_false),
    (MAP, 'Index', 'index'): ({'C01'}, 1, r_ref_value, None),
    (MAP, 'IndexMut', 'index_mut'): ({'C01'}, 1, r_ref_value, None),
    (SET, None, 'contains'): ({'C07'}, 1, r_true, r_false),
    (SET, None, 'get'): ({'C07', 'C12'}, 1, r_some_ref_key, r_none),
}


def subjects_of(E, st, args):
    """container ids reachable from each argument (entry state)"""
    out = []
    for a in args:
        found = []

        def walk(v, d=0):
            if not isinstance(v, tuple) or not v or d > 6:
                return
            if v[0] == 'map':
                found.append(v[1])
            elif v[0] == 'ref' and v[2][0] in ('O', 'L'):
                try:
                    walk(E.load(st, v[2], quiet=True), d + 1)
                except Exception:
                    pass
            elif v[0] == 'adt':
                for x in v[3]:
                    walk(x, d + 1)
            elif v[0] == 'tuple':
                for x in v[1]:
                    walk(x, d + 1)
        walk(a)
        out.append(found)
    return out


def arg_tags(body):
    """provenance tag of each parameter, by position (0 = receiver)"""
    out = {}
    for i in range(1, body.arg_count + 1):
        nm = body.locals[i].get('name') or ('arg%d' % i)
        out[i - 1] = ('arg', nm)
    return out



# ------------------------------------------------------------------------------ Entry API (C11)
def _user_calls(p, what):
    return [e for e in p.user if e[1].endswith(what)]


def entry_self(p):
    """entry-time value of the receiver (an Entry / OccupiedEntry / VacantEntry), refs followed"""
    v = p.self0
    return v


def occ_parts(v):
    """OccupiedEntry value -> index term"""
    # (layout-independent: the one integer field, wherever it sits and whatever else the struct carries)
    if v[0] == 'adt' and v[1] == OCC:
        ints = [x for x in v[3] if x[0] == 'int']
        if len(ints) == 1:
            return ints[0][1]
    return None


_VAC_E = [None]


def vac_key(v):
    """VacantEntry value -> the key it carries (located by type: the one field of a type-parameter type; markers
    such as PhantomData carry nothing)"""
    if v is not None and v[0] == 'adt' and v[1] == VAC:
        E = _VAC_E[0]
        mf = E.missed_fields(v[1]) if E is not None else None
        if mf is not None and mf[0] < len(v[3]):
            return v[3][mf[0]]
        c = [x for x in v[3] if x[0] != 'ref' and not (x[0] == 'adt' and not x[3])]
        if len(c) == 1:
            return c[0]
    return None


def entry_variant(p):
    """which variant of Entry the path is about: ('occ', index) | ('vac', key tag) | None"""
    ent = p.E.facts.adts.get(ENT)
    names = [v['name'] for v in ent['variants']] if ent else ['Occupied', 'Vacant']
    selftag = p.arg[0]
    for e in p.events:
        if e[0] == 'variant' and isinstance(e[1], tuple) and e[1][:len(selftag)] == selftag and len(e[1]) <= len(selftag) + 1:
            nm = names[e[2]]
            if nm == 'Occupied':
                return ('occ', p.variant_fields.get(e[2]))
            return ('vac', e[1] + (e[2], 0, 'key'))
    return None


def h_entry(ctx, p):
    """Map::entry(k): Occupied(index of the slot whose key matched) / Vacant(k) after a full miss"""
    nm = 'entry'
    z = p.z
    K = p.arg[1]
    ent = p.E.facts.adts.get(ENT)
    names = [v['name'] for v in ent['variants']]
    ctx.req('OUT', p.untouched() and p.len_is(0), nm, 'entry() must not change the container', p)
    v = p.val
    isent = v[0] == 'adt' and v[1] == ENT
    if p.hits:
        ctx.classes['hit'] += 1
        h = p.hits[-1]
        ctx.req('SCAN', tag_eq(z, h[3], K), nm + ':hit', 'the matching comparison was not against the supplied key', p)
        ok = isent and names[v[2]] == 'Occupied' and occ_parts(v[3][0]) is not None \
            and z.entails_eq(occ_parts(v[3][0]), h[2])
        ctx.req('OUT', ok, nm + ':hit-result', 'a present key must give Occupied with the index of the matching slot', p)
        return
    ctx.classes['miss'] += 1
    m = p.miss()
    ctx.req('SCAN', tag_eq(z, m, K) or m == ('<empty>',), nm + ':miss',
            'Vacant requires that every live key was compared with the supplied key', p)
    ok = isent and names[v[2]] == 'Vacant' and vac_key(v[3][0]) is not None and tag_eq(z, vtag(vac_key(v[3][0])), K)
    ctx.req('OUT', ok, nm + ':miss-result', 'an absent key must give Vacant holding the supplied key', p)
    if not z.entails_lt(p.ms.len0, p.ms.cap):
        ctx.classes['miss-any-fill'] += 1


def _vacant_insert(ctx, p, K, V, vprefix=None):
    """VacantEntry::insert semantics (through the ordinary find-or-append core)"""
    def absent(p, idx):
        return r_ref_value(p, idx)

    def present(p, h):
        return r_ref_value(p, h)
    p2 = p
    p2.arg = dict(p.arg)
    p2.arg['K'] = K
    p2.arg['V'] = V
    if vprefix is not None:
        # the value is whatever the closure returned: take its tag from the slot that was written
        cs = [t for (_, t) in p.ms.contents]
        got = cs[-1][1] if cs else None
        ok = isinstance(got, tuple) and len(got) >= 2 and got[0] == 'u' and got[1].endswith(vprefix)
        ctx.req('OUT', ok, ctx.body.name + ':value', 'the stored value must be the result of the closure / Default', p)
        p2.arg['V'] = got
    insertion(ctx, p2, 'K', 'V', True, absent, present, None)


def h_or_insert(kind):
    def h(ctx, p):
        nm = ctx.body.name
        ev = entry_variant(p)
        if ev is None:
            ctx.req('OUT', False, nm, 'cannot tell which Entry variant this path handles', p)
            return
        calls = _user_calls(p, 'call_once') + _user_calls(p, 'Default::default')
        if ev[0] == 'occ':
            ctx.classes['occupied'] += 1
            ctx.req('OUT', ev[1] is not None and r_ref_value(p, ev[1]) and p.untouched() and p.len_is(0), nm + ':occupied',
                    'on an occupied entry the result must be the existing value of that slot and nothing may change', p)
            ctx.req('ARMCALL', not calls, nm + ':occupied', 'the default closure must not run for an occupied entry', p)
            return
        ctx.classes['vacant'] += 1
        K = ev[1]
        if kind == 'value':
            ctx.req('ARMCALL', not calls, nm + ':vacant', 'no user closure is involved in or_insert', p)
            _vacant_insert(ctx, p, K, p.arg[1])
        else:
            want = 'Default::default' if kind == 'default' else 'call_once'
            ok = len(calls) == 1 and calls[0][1].endswith(want)
            if ok and kind in ('with', 'with_key'):
                ok = calls[0][2][0] == p.arg[1]
            if ok and kind == 'with_key':
                ok = p.E.tag_mentions(calls[0][2], K)
            ctx.req('ARMCALL', ok, nm + ':vacant',
                    'on a vacant entry the closure (or Default) must run exactly once%s'
                    % (' and receive the entry key' if kind == 'with_key' else ''), p)
            _vacant_insert(ctx, p, K, None, want)
    return h


def u_or_insert(kind):
    """the same entry points on a path that ends in the container's own panic (no room for the new entry): like
    the direct `map.insert(k, f())`, the closure of a vacant entry has run -- exactly once -- before that"""
    def h(ctx, p):
        nm = ctx.body.name
        ev = entry_variant(p)
        if ev is None or ev[0] == 'occ':
            return
        ctx.classes['vacant-refused'] += 1
        want = 'Default::default' if kind == 'default' else 'call_once'
        calls = _user_calls(p, 'call_once') + _user_calls(p, 'Default::default')
        ok = len(calls) == 1 and calls[0][1].endswith(want)
        ctx.req('ARMCALL', ok, nm + ':vacant-refused',
                'on a vacant entry the closure (or Default) runs exactly once, also when the insertion is then refused '
                'for lack of room (as with map.insert(k, f()))', p)
    return h


UNWIND_HANDLERS = {}


def h_entry_key(ctx, p):
    """Entry::key(): the stored key of the occupied slot / the key the vacant entry was created with"""
    nm = 'key'
    ev = entry_variant(p)
    if ev is None:
        ctx.req('OUT', False, nm, 'cannot tell which Entry variant this path handles', p)
        return
    if ev[0] == 'occ':
        ctx.classes['occupied'] += 1
        ctx.req('OUT', ev[1] is not None and slot_ref(p.val, p.z, p.mid, ev[1], (0,)) and p.untouched(), nm + ':occupied',
                'must return a reference to the key stored in the entry\'s own slot', p, props=ctx.props | {'C12'})
        inside_rule(ctx, p)     # (C06: on the occupied arm the key handed out is a stored element)
        return
    ctx.classes['vacant'] += 1
    t = p.E.rtag(p.st, p.val)
    ctx.req('OUT', tag_eq(p.z, t, ev[1]) and p.untouched(), nm + ':vacant',
            'must return a reference to the key the vacant entry was created with', p)


def h_and_modify(ctx, p):
    nm = 'and_modify'
    ev = entry_variant(p)
    ent = p.E.facts.adts.get(ENT)
    names = [v['name'] for v in ent['variants']]
    calls = _user_calls(p, 'call_once')
    v = p.val
    isent = v[0] == 'adt' and v[1] == ENT
    if ev is None:
        ctx.req('OUT', False, nm, 'cannot tell which Entry variant this path handles', p)
        return
    if ev[0] == 'occ':
        ctx.classes['occupied'] += 1
        idx = ev[1]
        ok = len(calls) == 1 and calls[0][2][0] == p.arg[1] and idx is not None \
            and tag_eq(p.z, calls[0][2][1], ('tuple', ('slot', p.mid, idx, (1,))))
        ctx.req('ARMCALL', ok, nm + ':occupied',
                'on an occupied entry the closure must run exactly once, on the value of that slot', p)
        only_value = (not p.ms.contents) or p.contents_are(
            [(idx, (stored(p.mid, idx, 0), ('usermod', stored(p.mid, idx, 1))))])
        ctx.req('OUT', only_value and p.len_is(0) and not p.reads and not p.writes, nm + ':occupied',
                'and_modify may change nothing but the value of that slot', p)
        ok = isent and names[v[2]] == 'Occupied' and occ_parts(v[3][0]) is not None \
            and p.z.entails_eq(occ_parts(v[3][0]), idx)
        ctx.req('OUT', ok, nm + ':occupied-result', 'and_modify must hand back the same occupied entry', p)
        return
    ctx.classes['vacant'] += 1
    ctx.req('ARMCALL', not calls, nm + ':vacant', 'the closure must not run for a vacant entry', p)
    ok = isent and names[v[2]] == 'Vacant' and vac_key(v[3][0]) is not None and tag_eq(p.z, vtag(vac_key(v[3][0])), ev[1])
    ctx.req('OUT', ok and p.untouched() and p.len_is(0), nm + ':vacant-result',
            'and_modify on a vacant entry must hand back the same vacant entry and change nothing', p)


def h_occ(kind):
    def h(ctx, p):
        nm = ctx.body.name
        idx = occ_parts(p.self0) if p.self0 is not None else None
        if idx is None:
            ctx.req('OUT', False, nm, 'cannot resolve the OccupiedEntry receiver', p)
            return
        ctx.classes['occupied'] += 1
        if kind in ('key', 'get', 'get_mut', 'into_mut'):
            sub = (0,) if kind == 'key' else (1,)
            ctx.req('OUT', slot_ref(p.val, p.z, p.mid, idx, sub) and p.untouched() and p.len_is(0), nm,
                    'must return a reference to the %s of the entry\'s own slot and change nothing'
                    % ('key' if kind == 'key' else 'value'), p)
        elif kind == 'insert':
            ctx.req('ROUTE', p.contents_are([(idx, (stored(p.mid, idx, 0), p.arg[1]))]) and p.len_is(0)
                    and not p.reads and not p.writes, nm,
                    'must store the supplied value in the entry\'s own slot, keep its key, touch nothing else', p)
            ctx.req('OUT', r_old_value(p, idx), nm + ':result', 'must return the previous value of that slot', p)
        else:
            p.idx0 = idx
            removal(ctx, p, None, r_old_pair if kind == 'remove_entry' else r_old_value, None)
    return h


def h_vac_insert(ctx, p):
    v = p.self0
    if vac_key(v) is None:
        ctx.req('OUT', False, 'insert', 'cannot resolve the VacantEntry receiver', p)
        return
    _vacant_insert(ctx, p, vtag(vac_key(v)), p.arg[1])


def h_vac_key(ctx, p):
    """VacantEntry::key(): a reference to the key the entry was created with; nothing is touched"""
    v = p.self0
    ctx.classes['vacant'] += 1
    ok = vac_key(v) is not None
    t = p.E.rtag(p.st, p.val) if ok else None
    ctx.req('OUT', ok and tag_eq(p.z, t, vtag(vac_key(v))) and p.untouched() and p.len_is(0), 'key',
            'must return a reference to the key the vacant entry was created with', p)


def h_vac_into_key(ctx, p):
    v = p.self0
    ok = vac_key(v) is not None and tag_eq(p.z, vtag(p.val), vtag(vac_key(v)))
    ctx.req('OUT', ok and p.untouched() and p.len_is(0), 'into_key', 'must return the key the entry was created with', p)


# ------------------------------------------------------------------------------ iterators (C09, C10)
ITER, ITERMUT, INTOITER = 'iterators::Iter', 'iterators::IterMut', 'iterators::IntoIter'
KEYS, VALUES, VALUESMUT = 'keys::Keys', 'values::Values', 'values::ValuesMut'
INTOKEYS, INTOVALUES = 'keys::IntoKeys', 'values::IntoValues'
DRAIN = 'drain::Drain'
SETITER, SETINTOITER, SETDRAIN = 'set::SetIter', 'set::SetIntoIter', 'set::SetDrain'


def cursor_of(E, v):
    """the slice cursor inside an iterator value: (mid, front, back, mut) or None"""
    c = E.sliceits_in(v) if v is not None else []
    if len(c) == 1:
        return c[0][1], c[0][2], c[0][3], c[0][4]
    return None


def map_in(E, v):
    c = E.byvalue_maps(v) if v is not None else []
    return c[0] if len(c) == 1 else None


def final_self(p):
    """value of the receiver object at the exit (for &self / &mut self receivers)"""
    a0 = p.args0[0] if p.args0 else None
    v = a0
    d = 0
    while v is not None and v[0] == 'ref' and d < 4:
        try:
            v = p.E.load(p.st, v[2], quiet=True)
        except Exception:
            return None
        d += 1
    return v


def proj_ok(p, item, mid, idx, how):
    """item is the stated projection of slot idx"""
    z = p.z
    if how == 'pair':
        return item[0] == 'tuple' and len(item[1]) == 2 and slot_ref(item[1][0], z, mid, idx, (0,)) \
            and slot_ref(item[1][1], z, mid, idx, (1,)) and not item[1][0][1]
    if how == 'key':
        return slot_ref(item, z, mid, idx, (0,)) and not item[1]
    if how == 'value':
        return slot_ref(item, z, mid, idx, (1,))
    if how == 'owned-pair':
        return item[0] == 'tuple' and len(item[1]) == 2 and tag_eq(z, vtag(item[1][0]), stored(mid, idx, 0)) \
            and tag_eq(z, vtag(item[1][1]), stored(mid, idx, 1))
    if how == 'owned-key':
        return tag_eq(z, vtag(item), stored(mid, idx, 0))
    if how == 'owned-value':
        return tag_eq(z, vtag(item), stored(mid, idx, 1))
    return False


def h_cursor_next(how):
    """next() of an iterator that wraps a core slice iterator over slots"""
    def h(ctx, p):
        nm = ctx.body.name
        c0 = cursor_of(p.E, p.self0)
        c1 = cursor_of(p.E, final_self(p))
        if c0 is None or c1 is None:
            ctx.req('OUT', False, nm, 'cannot find the slice cursor inside the iterator', p)
            return
        mid, f0, b0, _ = c0
        _, f1, b1, _ = c1
        z = p.z
        owned = how.startswith('owned')
        reads = [e for e in p.events if e[0] == 'read' and e[1] == mid]
        writes = [e for e in p.events if e[0] in ('write', 'len', 'store') and e[1] == mid]
        if is_none(p.val):
            ctx.classes['none'] += 1
            ctx.req('OUT', z.entails_le(b0, f0), nm + ':none', 'None may be returned only when no element remains', p)
            ctx.req('OUT', z.entails_eq(f1, f0) and z.entails_eq(b1, b0) and not reads, nm + ':none',
                    'returning None must leave the iterator unchanged (so it keeps returning None)', p)
            return
        item = some_of(p.val)
        ctx.classes['some'] += 1
        ctx.req('OUT', item is not None and proj_ok(p, item, mid, f0, how), nm + ':some',
                'the item must be the stated projection of the first remaining slot', p)
        ctx.req('ONCE', z.entails_eq(f1, f0, 1) and z.entails_eq(b1, b0), nm + ':some',
                'yielding an item must advance the cursor by exactly one element', p)
        if owned:
            ok = len(reads) == 1 and z.entails_eq(reads[0][2], f0) and not writes
            ctx.req('ONCE', ok, nm + ':some', 'a draining iterator must move exactly the yielded element out of its slot', p)
        else:
            ctx.req('OUT', not reads and not writes, nm + ':some',
                    'a borrowing iterator must not move, write or re-count anything', p)
    return h


def h_cursor_nth(how):
    """nth(n) of a cursor iterator: Some(x) -- x is the stated projection of the element the cursor passed last,
    and exactly n + 1 elements were passed; None -- the iterator is exhausted and at most n elements were passed.
    (How many were passed is counted in the state: ghost counter ('adv', container).)  A draining iterator must
    leave nothing it owns alive behind the cursor."""
    def h(ctx, p):
        nm = ctx.body.name
        c0 = cursor_of(p.E, p.self0)
        c1 = cursor_of(p.E, final_self(p))
        if c0 is None or c1 is None:
            ctx.req('OUT', False, nm, 'cannot find the slice cursor inside the iterator', p)
            return
        mid, f0, b0, _ = c0
        _, f1, b1, _ = c1
        z = p.z
        ms = p.st.maps[mid]
        owned = how.startswith('owned')
        n = p.args0[1][1] if len(p.args0) > 1 and p.args0[1][0] == 'int' else None
        g = p.st.ghost.get(('adv', mid))
        passed = g[0] if g else 0
        # positions reached by a jump (`rest = rest.get(n..)`): terms t with t = f0 + n, remembered on the side
        def teq(x, y):
            return (isinstance(x, int) and isinstance(y, int) and x == y) or x is y or z.entails_eq(x, y)
        jumps = []
        if len(p.args0) > 1 and p.args0[1][0] == 'int':
            nn = p.args0[1][1]
            for k, ab in p.st.loadcache.items():
                if isinstance(k, tuple) and len(k) == 2 and k[0] == 'sum' and \
                        ((teq(ab[0], f0) and teq(ab[1], nn)) or (teq(ab[1], f0) and teq(ab[0], nn))):
                    jumps.append(k[1])
            if teq(f0, 0):
                jumps.append(nn)
        if not is_none(p.val):
            ctx.req('OUT', z.entails_eq(b1, b0), nm, 'nth must not touch the back end of the iterator', p)
        if owned:
            lo, hi = ms.extra_rng
            ctx.req('ONCE', slots.empty(z, ms.extra_rng) or z.entails_le(f1, lo), nm,
                    'a draining iterator must destroy (or hand out) every element it steps over: nothing it owns may '
                    'stay alive behind the cursor', p)
        if is_none(p.val):
            ctx.classes['none'] += 1
            ctx.req('OUT', z.entails_le(b1, f1), nm + ':none', 'None may be returned only when the iterator is exhausted afterwards', p)
            short = any(e[0] == 'nth-short' for e in p.events)
            jumped = any(z.entails_le(b0, t) for t in jumps)       # b0 <= f0 + n: at most n elements remained
            ctx.req('ONCE', short or jumped or (n is not None and z.entails_le(passed, n)), nm + ':none',
                    'None may be returned only when fewer than n + 1 elements remained (passed: %s)' % (passed,), p)
            return
        ctx.classes['some'] += 1
        item = some_of(p.val)
        last = slots.plus(p.st, f1, -1) if not isinstance(f1, int) else f1 - 1
        # the element the cursor passed last is the one right in front of the cursor
        idx = None
        for v in p.st.zone.vars:
            if isinstance(v, Term) and z.entails_eq(f1, v, 1):
                idx = v
                break
        ok = item is not None and idx is not None and proj_ok(p, item, mid, idx, how)
        ctx.req('OUT', ok, nm + ':some', 'the item must be the stated projection of the element right in front of the cursor', p)
        jumped = any(z.entails_eq(f1, t, 1) for t in jumps)        # f1 = f0 + n + 1
        ctx.req('ONCE', jumped or (n is not None and z.entails_eq(passed, n, 1)), nm + ':some',
                'exactly n + 1 elements must have been passed (n skipped, one yielded; passed: %s)' % (passed,), p)
    return h


def h_cursor_last(how):
    """last() of a borrowing cursor iterator: the stated projection of the last remaining slot, None iff empty"""
    def h(ctx, p):
        nm = ctx.body.name
        c0 = cursor_of(p.E, p.self0)
        if c0 is None:
            ctx.req('OUT', False, nm, 'cannot find the slice cursor inside the iterator', p)
            return
        mid, f0, b0, _ = c0
        z = p.z
        if is_none(p.val):
            ctx.classes['none'] += 1
            ctx.req('OUT', z.entails_le(b0, f0), nm + ':none', 'None may be returned only when no element remains', p)
            return
        ctx.classes['some'] += 1
        item = some_of(p.val)
        idx = None
        for v in p.st.zone.vars:
            if isinstance(v, Term) and z.entails_eq(b0, v, 1):
                idx = v
                break
        ok = item is not None and idx is not None and proj_ok(p, item, mid, idx, how) and z.entails_lt(f0, b0)
        ctx.req('OUT', ok, nm + ':some', 'the item must be the stated projection of the LAST remaining slot', p)
    return h


def h_cursor_count(kind):
    """size_hint / len / count of a slice-cursor iterator: exactly the number of remaining elements"""
    def h(ctx, p):
        nm = ctx.body.name
        c0 = cursor_of(p.E, p.self0)
        if c0 is None:
            ctx.req('HINT', False, nm, 'cannot find the slice cursor inside the iterator', p)
            return
        mid, f0, b0, _ = c0
        z = p.z

        def exact(v):
            return v[0] == 'slen' and z.entails_eq(v[1], f0) and z.entails_eq(v[2], b0)
        ctx.classes['hint'] += 1
        v = p.val
        if kind == 'size_hint':
            ok = v[0] == 'tuple' and len(v[1]) == 2 and exact(v[1][0]) and some_of(v[1][1]) is not None \
                and exact(some_of(v[1][1]))
        else:
            ok = exact(v)
            if not ok and kind == 'count' and v[0] == 'int':
                # core's default count() run on the crate's own inner iterator from exactly where the receiver
                # stood: the number of items that iterator's next() yields -- which its own schema settles
                for e in p.events:
                    if e[0] == 'counted' and len(e) > 3 and (e[2] is v[1] or z.entails_eq(e[2], v[1])) \
                            and len(e[3][0]) == 1 and e[3][0][0][0] == mid \
                            and z.entails_eq(e[3][0][0][1], f0) and z.entails_eq(e[3][0][0][2], b0):
                        ok = True
        ctx.req('HINT', ok, nm, 'must report exactly the number of elements not yet yielded', p)
        ctx.req('OUT', not p.reads and not p.writes and not p.lens, nm, 'must not change anything', p)
    return h


def h_pop_next(how):
    """next() of a consuming iterator that owns the container and pops its last element"""
    def h(ctx, p):
        nm = ctx.body.name
        mid = map_in(p.E, p.self0)
        if mid is None:
            ctx.req('OUT', False, nm, 'cannot find the owned container inside the iterator', p)
            return
        p.mid = mid
        p.ms = p.st.maps[mid]
        z, ms = p.z, p.ms
        reads = [e for e in p.events if e[0] == 'read' and e[1] == mid]
        if is_none(p.val):
            ctx.classes['none'] += 1
            ctx.req('OUT', z.entails_eq(ms.len0, 0), nm + ':none', 'None may be returned only when the container is empty', p)
            ctx.req('OUT', not reads and z.entails_eq(ms.len, ms.len0), nm + ':none', 'returning None must change nothing', p)
            return
        ctx.classes['some'] += 1
        item = some_of(p.val)
        ok = len(reads) == 1 and z.entails_eq(ms.len0, ms.len, 1) and z.entails_eq(reads[0][2], ms.len)
        ctx.req('ONCE', ok, nm + ':some', 'must move out exactly the last live element and decrease len by one', p)
        ctx.req('OUT', item is not None and ok and proj_ok(p, item, mid, reads[0][2], how), nm + ':some',
                'the item must be the stated projection of the element that was moved out', p)
        ctx.req('OUT', not ms.contents and not ms.holes and not ms.extras, nm + ':some', 'no other slot may be touched', p)
    return h


def h_pop_count(kind):
    def h(ctx, p):
        nm = ctx.body.name
        mid = map_in(p.E, p.self0)
        if mid is None:
            ctx.req('HINT', False, nm, 'cannot find the owned container inside the iterator', p)
            return
        z = p.z
        n = p.st.maps[mid].len0

        def exact(v):
            return v[0] == 'int' and z.entails_eq(v[1], n)
        ctx.classes['hint'] += 1
        v = p.val
        if kind == 'size_hint':
            ok = v[0] == 'tuple' and len(v[1]) == 2 and exact(v[1][0]) and some_of(v[1][1]) is not None \
                and exact(some_of(v[1][1]))
        else:
            ok = exact(v)
            if not ok and kind == 'count' and v[0] == 'int':
                for e in p.events:
                    if e[0] == 'counted' and len(e) > 3 and (e[2] is v[1] or z.entails_eq(e[2], v[1])) \
                            and len(e[3][1]) == 1 and e[3][1][0][0] == mid and z.entails_eq(e[3][1][0][1], n):
                        ok = True       # (core's default count() on the crate's own inner iterator, untouched)
        ctx.req('HINT', ok, nm, 'must report exactly the number of elements still held', p)
    return h


def h_make_cursor(kind):
    """iter()/iter_mut()/keys()/values()/values_mut()/drain()/&-into_iter: the cursor spans exactly [0,len)"""
    def h(ctx, p):
        nm = ctx.body.name
        z, ms = p.z, p.ms
        c = cursor_of(p.E, p.val)
        ctx.classes['made'] += 1
        if c is None or ms is None:
            ctx.req('ROOTSLICE', False, nm, 'the result does not wrap exactly one slice cursor over the container', p)
            return
        mid, f, b, mut = c
        ctx.req('ROOTSLICE', mid == p.mid and z.entails_eq(f, 0) and z.entails_eq(b, ms.len0), nm,
                'the iterator must range over exactly the live prefix [0, len) of the container', p)
        if kind == 'drain':
            ctx.req('OUT', z.entails_eq(ms.len, 0) and not p.reads and not p.writes, nm,
                    'drain() must leave the container empty (len == 0) at once, moving nothing itself (otherwise a '
                    'forgotten or half-consumed drain leaves elements owned twice)', p, props=ctx.props | {'C02'})
        else:
            ctx.req('OUT', p.untouched() and p.len_is(0), nm, 'creating a borrowing iterator must change nothing', p)
    return h


def h_make_owner(ctx, p):
    """into_iter()/into_keys()/into_values(): the result owns the very same container"""
    nm = ctx.body.name
    ctx.classes['made'] += 1
    mid = map_in(p.E, p.val)
    ms = p.st.maps.get(mid) if mid else None
    src = map_in(p.E, p.self0)
    # (the very same container, or one that took over its whole slot array: models.m_replace / 'adopted')
    same = mid is not None and src is not None and (mid == src or (ms.replaced == src and p.st.maps[src].dead))
    len0 = p.st.maps[src].len0 if same else None
    ok = same and not ms.contents and not ms.holes and not ms.extras and slots.empty(p.z, ms.extra_rng) \
        and slots.empty(p.z, ms.hole_rng) and len0 is not None and p.z.entails_eq(ms.len, len0)
    ctx.req('ROOTSLICE', ok, nm, 'the consuming iterator must own the unchanged container', p)


def h_iter_clone(ctx, p):
    nm = 'clone'
    ctx.classes['made'] += 1
    c0 = cursor_of(p.E, p.self0)
    c1 = cursor_of(p.E, p.val)
    c2 = cursor_of(p.E, final_self(p))
    z = p.z
    ok = c0 is not None and c1 is not None and c2 is not None and c1[0] == c0[0] \
        and z.entails_eq(c1[1], c0[1]) and z.entails_eq(c1[2], c0[2]) \
        and z.entails_eq(c2[1], c0[1]) and z.entails_eq(c2[2], c0[2])
    ctx.req('OUT', ok, nm, 'a cloned iterator must continue exactly where its original stands, which stays unchanged', p)


# ------------------------------------------------------------------------------ clear / clone of containers
def h_clear(ctx, p):
    nm = ctx.body.name
    z, ms = p.z, p.ms
    ctx.classes['cleared'] += 1
    ctx.req('OUT', ms is not None and z.entails_eq(ms.len, 0), nm, 'afterwards the container must be empty', p)
    # every old element destroyed exactly once: nothing live is left outside len (INV covers the rest)
    ctx.req('OUT', ms is not None and not ms.extras and slots.empty(z, ms.extra_rng), nm,
            'every element that was stored must have been destroyed', p)


# ------------------------------------------------------------------------------ per-iteration schemas
def _norm_answer(tag, truth):
    while isinstance(tag, tuple) and tag and tag[0] == 'not':
        tag = tag[1]
        truth = not truth
    return tag, truth


class Iteration:
    """one complete loop iteration (events between two visits of the loop head)"""

    def __init__(self, E, st, seg):
        self.E, self.st, self.z, self.seg = E, st, st.zone, seg
        E.view_zone = st.zone

    def ev(self, *kinds):
        return [e for e in self.seg if e[0] in kinds]

    def describe(self):
        cs = '; '.join('%s: %s' % (m, [(str(i), t) for i, t in ms.contents]) for m, ms in self.st.maps.items() if ms.contents)
        return 'slot contents changed in this iteration: {%s}; iteration events: %s' % (
            cs, ' | '.join(str(e) for e in self.seg if e[0] not in ('at', 'slice', 'loop', 'user', 'assume'))[:1500])


def it_req(E, props, rule, ok, prim, what, it):
    E.oblig(rule, bool(ok), prim, what + ' -- ' + it.describe(), 'refuted',
            sample=('required: ' + what + ' | seen: ' + it.describe()[:400]) if len(E.samples[rule]) < 6 else None,
            props=sorted(props))
    return bool(ok)


def retain_iteration(props):
    """retain: an element is removed iff the user predicate answered false for it"""
    def hook(E, body, key, st, seg, depth=0):
        it = Iteration(E, st, seg)
        calls = [e for e in it.ev('user') if e[1].endswith('FnMut::call_mut')]
        if not calls:
            return
        nm = body.name
        E.iter_classes['predicate'] += 1
        c = calls[-1]
        it_req(E, props, 'ONCE', len(calls) == 1, nm + ':iteration', 'the predicate must run exactly once per visited element', it)
        slot = None
        for t in (c[2][1][1:] if len(c[2]) > 1 and isinstance(c[2][1], tuple) else ()):
            if isinstance(t, tuple) and len(t) == 4 and t[0] == 'slot':
                slot = t
                break
        it_req(E, props, 'OUT', slot is not None, nm + ':iteration', 'the predicate must be given a live element of the container', it)
        if slot is None:
            return
        mid, idx = slot[1], slot[2]
        ans = [(_norm_answer(e[1], e[2])) for e in it.ev('assume')
               if isinstance(_norm_answer(e[1], e[2])[0], tuple) and _norm_answer(e[1], e[2])[0][:2] == ('u', c[1])]
        reads = [e for e in it.ev('read') if e[1] == mid]
        lens = [e for e in it.ev('len') if e[1] == mid]
        writes = [e for e in it.ev('write') if e[1] == mid]
        if not ans:
            it_req(E, props, 'POL', False, nm + ':iteration', 'the fate of the element does not depend on the predicate', it)
            return
        keep = ans[-1][1]
        if keep:
            E.iter_classes['kept'] += 1
            it_req(E, props, 'POL', not reads and not lens and not writes, nm + ':kept',
                   'an element for which the predicate answered true must stay untouched', it)
        else:
            E.iter_classes['removed'] += 1
            ms = st.maps[mid]
            z = st.zone

            def orig(t, f):
                while isinstance(t, tuple) and t and t[0] == 'usermod':
                    t = t[1]
                return tag_eq(z, t, stored(mid, idx, f))
            gone = [e for e in reads if orig(e[3][0], 0)]
            ok = len(gone) == 1 and len(lens) == 1
            it_req(E, props, 'POL', ok, nm + ':removed',
                   'the element for which the predicate answered false must be moved out / destroyed (exactly once) '
                   'and len decreased by one', it)
            # the hole is closed by the former last element (or the removed one was the last); nothing else moves
            if z.entails_eq(idx, ms.len):
                ok2 = True
            elif z.entails_lt(idx, ms.len):
                ok2 = tag_eq(z, slots.content(st, mid, idx)[0], stored(mid, ms.len, 0))
            else:
                ok2 = False
            others = [i for (i, _) in ms.contents if not z.entails_eq(i, idx) and z.entails_lt(i, ms.len)]
            it_req(E, props, 'OUT', ok2 and not others and len(reads) <= 2, nm + ':removed',
                   'the hole must be closed by moving the last live element into it (nothing else may move)', it)
    return hook


def bulk_iteration(props, pulled_by, key_of_item):
    """from_iter / extend / deserialisation: one key-keeping insert per pulled item"""
    def hook(E, body, key, st, seg, depth=0):
        it = Iteration(E, st, seg)
        pulls = [e for e in seg if pulled_by(e)]
        if not pulls:
            return
        nm = body.name
        E.iter_classes['item'] += 1
        it_req(E, props, 'ONCE', len(pulls) == 1, nm + ':iteration', 'the source must be advanced exactly once per iteration', it)
        okc, bad = bulk_source_ok(E, body, seg)
        it_req(E, props, 'FLOW', okc, nm + ':iteration',
               'the items must be pulled from the source itself, front to back, with nothing in between that could '
               'drop, skip or reorder items (offending call: %s)' % (bad[1] if bad else None), it)
        hits = it.ev('hit')
        apps = it.ev('append')
        # (an item that is neither stored nor makes the call panic has been dropped silently -- for a full
        #  container that is also not the clean refusal C03 demands)
        it_req(E, props | ({'C03'} if not hits and not apps else set()), 'ONCE', len(hits) + len(apps) == 1, nm + ':iteration',
               'each pulled item must be inserted exactly once (found-and-replaced or appended)', it)
        if len(hits) + len(apps) != 1:
            return
        if root_key(body)[2] == 'extend':
            tgt = (apps or hits)[0][1]
            it_req(E, props, 'FLOW', tgt in st.maps and st.maps[tgt].borrowed, nm + ':iteration',
                   'extend must insert each pulled item into the receiver itself: an item parked in a temporary '
                   'container is lost when a later item (or the source) panics, unlike inserting one by one', it)
        item = key_of_item(pulls[-1])
        def val_ok(t):
            return t == ('tuple',) or (item is not None and E.tag_mentions(t, item))
        if apps:
            E.iter_classes['append'] += 1
            a = apps[0]
            ms = st.maps[a[1]]
            it_req(E, props, 'FLOW', item is not None and E.tag_mentions(a[3], item), nm + ':append',
                   'the appended key must be the key of the item just pulled', it)
            cs = list(ms.contents)
            ok = len(cs) == 1 and st.zone.entails_eq(cs[0][0], a[2]) and item is not None \
                and E.tag_mentions(cs[0][1][0], item) and val_ok(cs[0][1][1])
            it_req(E, props, 'FLOW', ok and len([e for e in it.ev('len') if e[1] == a[1]]) == 1, nm + ':append',
                   'the new slot must hold the key and the value of the item just pulled; no other slot may change', it)
        else:
            E.iter_classes['hit'] += 1
            h = hits[0]
            ms = st.maps[h[1]]
            it_req(E, props, 'FLOW', item is not None and E.tag_mentions(h[3], item), nm + ':hit',
                   'the key that was looked up must be the key of the item just pulled', it)
            cs = list(ms.contents)
            ok = len(cs) == 1 and st.zone.entails_eq(cs[0][0], h[2]) \
                and tag_eq(st.zone, cs[0][1][0], stored(h[1], h[2], 0)) and val_ok(cs[0][1][1])
            it_req(E, props | {'C12'}, 'ROUTE', ok and not [e for e in it.ev('len') if e[1] == h[1]], nm + ':hit',
                   'for a repeated key the first key object must be kept and the value of the item just pulled stored '
                   '(last value wins), touching no other slot and consuming no capacity', it)
    return hook


def _slot_sources(tag, acc=None):
    """all slot references ( (mid, idx, sub) ) mentioned inside a provenance tag"""
    if acc is None:
        acc = []
    if isinstance(tag, tuple):
        if len(tag) == 4 and tag[0] in ('pair', 'slot') and isinstance(tag[1], str):
            acc.append((tag[1], tag[2], tuple(tag[3])))
        else:
            for x in tag:
                _slot_sources(x, acc)
    return acc


def clone_iteration(props):
    """Map::clone: per element exactly one clone of the key and one of the value, written to the same index"""
    def hook(E, body, key, st, seg, depth=0):
        it = Iteration(E, st, seg)
        nm = body.name
        calls = [e for e in seg if e[0] in ('user', 'opaque') and e[1].endswith('Clone::clone')]
        writes = it.ev('write')
        if not calls and not writes:
            return
        E.iter_classes['element'] += 1
        z = st.zone
        ok_w = len(writes) == 1
        it_req(E, props, 'ONCE', ok_w, nm + ':iteration', 'exactly one slot of the copy must be written per source element', it)
        if not ok_w:
            return
        w = writes[0]
        dst_mid, d, (kt, vt) = w[1], w[2], w[3]
        ks, vs = _slot_sources(kt), _slot_sources(vt)
        ok = len(ks) == 1 and len(vs) == 1 and ks[0][0] == vs[0][0] != dst_mid and z.entails_eq(ks[0][1], vs[0][1]) \
            and 'Clone::clone' in str(kt) and 'Clone::clone' in str(vt)
        it_req(E, props, 'FLOW', ok, nm + ':iteration',
               'the written key and value must be clones of the key and value of one and the same source slot', it)
        if not ok:
            return
        whole = ks[0][2] == () and vs[0][2] == ()
        parts = ks[0][2] == (0,) and vs[0][2] == (1,)
        it_req(E, props, 'FLOW', (whole and kt[-1] == 0 and vt[-1] == 1) or parts, nm + ':iteration',
               'the key must be cloned from the key and the value from the value', it)
        it_req(E, props, 'ONCE', len(calls) == (1 if whole else 2), nm + ':iteration',
               'each stored key and each stored value must be cloned exactly once', it)
        it_req(E, props, 'FLOW', z.entails_eq(d, ks[0][1]), nm + ':iteration',
               'element i of the source must be cloned into slot i of the copy', it)
    return hook


def h_clone_result(ctx, p):
    nm = 'clone'
    ctx.classes['cloned'] += 1
    mid = map_in(p.E, p.val)
    ms = p.st.maps.get(mid) if mid else None
    src = p.ms
    ok = ms is not None and src is not None and ms.len0 is None and mid != p.mid
    ctx.req('FLOW', ok, nm, 'the clone must be a fresh container built inside the call (no shared storage)', p)
    if ok:
        ctx.req('OUT', p.z.entails_eq(ms.len, src.len), nm, 'the clone must have the length of the original', p)
        ctx.req('OUT', p.untouched() and p.len_is(0), nm, 'cloning must not change the original', p)
        ctx.req('ONCE', not ms.extras and slots.empty(p.z, ms.extra_rng) and not ms.holes and slots.empty(p.z, ms.hole_rng), nm,
                'the clone must hold exactly len cloned elements: nothing cloned into slots beyond len, no slot below '
                'len left unwritten (each stored element is cloned exactly once)', p)


def h_clone_from(ctx, p):
    """clone_from(&mut self, source): afterwards the receiver holds exactly what a clone of `source` holds.  Decided
    for the form that builds a fresh copy (judged by the per-element schema of clone) and then exchanges it with the
    old contents as a whole; an element-wise update in place is not decided (reported as unproven)."""
    nm = 'clone_from'
    ctx.classes['cloned'] += 1
    ms = p.ms
    srcs = [m for m in (p.subjects_all[1] if len(p.subjects_all) > 1 else [])] if getattr(p, 'subjects_all', None) else []
    src = p.st.maps.get(srcs[0]) if len(srcs) == 1 else None
    ok = ms is not None and src is not None and ms is not src
    ctx.req('FLOW', ok, nm, 'cannot resolve receiver and source of clone_from', p)
    if not ok:
        return
    fresh = getattr(ms, 'replaced', None) is not None and any(e[0] == 'replaced' and e[1] == p.mid for e in p.events)
    E = p.E
    E.oblig('OUT', fresh, nm, 'clone_from is decided only in the form "build a fresh copy, then exchange it with the old '
            'contents as a whole"; this one updates the receiver in place: that it ends up holding exactly one clone of '
            'every element of the source (also when a Clone panics part-way) is not established -- ' + p.describe(),
            'unproven', props=sorted(ctx.props))
    if not fresh:
        return
    ctx.req('OUT', p.z.entails_eq(ms.len, src.len), nm, 'after clone_from the receiver must have the length of the source', p)
    ctx.req('OUT', not src.contents and not src.holes and not src.extras and p.z.entails_eq(src.len, src.len0), nm,
            'clone_from must not change the source', p)
    ctx.req('ONCE', not ms.extras and slots.empty(p.z, ms.extra_rng) and not ms.holes and slots.empty(p.z, ms.hole_rng), nm,
            'the receiver must hold exactly len cloned elements', p)


# ------------------------------------------------------------------------------ two-container quantifiers
def _value_eq_answer(seg, X, h, Y, i, z):
    """answer of V::eq between the value of slot h of X and the value of slot i of Y in this segment"""
    for e in seg:
        if e[0] != 'assume':
            continue
        tag, truth = _norm_answer(e[1], e[2])
        if not (isinstance(tag, tuple) and len(tag) == 3 and tag[0] == 'eq'):
            continue
        sides = [tag[1], tag[2]]
        def is_val(t, m, idx):
            return isinstance(t, tuple) and len(t) == 4 and t[0] == 'slot' and t[1] == m and tuple(t[3]) == (1,) \
                and z.entails_eq(t[2], idx)
        if (is_val(sides[0], X, h) and is_val(sides[1], Y, i)) or (is_val(sides[1], X, h) and is_val(sides[0], Y, i)):
            return truth
    return None


def _probe(E, st, seg):
    """what the lookup started in this segment found: (X, 'hit', h, probe tag) | (X, 'miss', None, probe tag) | None"""
    sl = [e for e in seg if e[0] == 'slice']
    if sl:
        X = sl[-1][1]
        hits = [e for e in seg if e[0] == 'hit' and e[1] == X]
    elif any(e[0] == 'loop' for e in seg):
        # no slice of a live prefix was taken, but the segment contains an inner loop: a lookup written as an
        # index loop.  Its steps are not in the log (a loop keeps the log of its first arrival); what it
        # established is: a hit event, or the scan record of the container it went through.
        # (A segment WITHOUT an inner loop is a single step of such a scan, not an iteration with a lookup.)
        hits = [e for e in seg if e[0] == 'hit']
        if hits:
            X = hits[-1][1]
            hits = [e for e in hits if e[1] == X]
        else:
            at = [e for e in seg if e[0] == 'at']
            cands = [m for m, ms in st.maps.items() if not ms.dead and E.miss_complete(st, m) not in (None, ('<empty>',))]
            empties = [m for m, ms in st.maps.items() if not ms.dead and not ms.phantom and ms.len0 is not None
                       and E.miss_complete(st, m) == ('<empty>',)]
            if len(cands) == 1:
                X = cands[0]
            elif at:
                X = at[-1][1]
            elif not cands and len(empties) == 1:
                X = empties[0]      # the loop ended at once: the container it would have gone through is empty
            else:
                return None
    else:
        # neither a slice nor a loop: a lookup that answered "absent" at once because the container is empty
        # (`if self.is_empty() { return false }` in front of the scan) -- a decided comparison of a length with 0
        # in this segment, and exactly one caller-owned container that is empty on this path
        lens0 = [e for e in seg if e[0] == 'cond']
        empties = [m for m, ms in st.maps.items() if not ms.dead and not ms.phantom and ms.len0 is not None
                   and E.miss_complete(st, m) == ('<empty>',)]
        if lens0 and len(empties) == 1:
            X = empties[0]
            hits = []
        else:
            return None
    if hits:
        return X, 'hit', hits[-1][2], hits[-1][3]
    m = E.miss_complete(st, X)
    if m is not None and m != ('<empty>',):
        return X, 'miss', None, m
    if m == ('<empty>',):
        return X, 'miss', None, None
    return X, 'unknown', None, None


def quantifier_iteration(mode):
    def mk(props):
        def hook(E, body, key, st, seg, depth=0):
            pr = _probe(E, st, seg)
            if pr is None:
                return
            it = Iteration(E, st, seg)
            nm = body.name
            X, kind, h, probe = pr
            E.iter_classes['continued'] += 1
            z = st.zone
            src = probe if (isinstance(probe, tuple) and len(probe) == 4 and probe[0] == 'slot' and probe[1] != X
                            and tuple(probe[3]) == (0,)) else None
            if mode == 'disjoint':
                it_req(E, props, 'POL', kind == 'miss', nm + ':continue',
                       'the scan may continue only after the element was looked up in the other set and not found', it)
                return
            ok = kind == 'hit' and src is not None
            it_req(E, props, 'POL', ok, nm + ':continue',
                   'the scan may continue only after the element of one operand was found in the other operand', it)
            if ok and mode == 'eq':
                ans = _value_eq_answer(seg, X, h, src[1], src[2], z)
                it_req(E, props, 'USERCALL', ans is True, nm + ':continue',
                       'the scan may continue only after the two values stored under the matching keys compared equal', it)
        return hook
    return mk


def h_quantifier(mode, outer_is):
    """eq / is_subset / is_superset / is_disjoint: what each truth value is allowed to rest on"""
    def h(ctx, p):
        nm = ctx.body.name
        E, st, z = p.E, p.st, p.z
        if p.val[0] == 'boolc':
            # the result IS an integer comparison (e.g. `.. && self.len() == other.len()`): both outcomes
            # are separate paths
            for truth in (True, False):
                s2 = st.fork()
                if E.assume_cond(s2, p.val[1], truth):
                    s2.log('cond', p.val[1], truth)
                    q = Path(E, p.body, s2, ('bool', truth), p.subjects, p.arg)
                    q.self0, q.subjects_all, q.args0, q.idx0, q.variant_fields = p.self0, p.subjects_all, p.args0, None, {}
                    h(ctx, q)
            return
        A = p.subjects_all[0][0] if p.subjects_all and p.subjects_all[0] else None
        B = p.subjects_all[1][0] if len(p.subjects_all) > 1 and p.subjects_all[1] else None
        if A is None or B is None or A == B:
            ctx.req('OUT', False, nm, 'cannot identify the two operand containers', p)
            return
        ma, mb = st.maps[A], st.maps[B]
        quiet = all(not [e for e in p.events if e[0] in ('read', 'write', 'len', 'store') and e[1] == m]
                    and not st.maps[m].contents for m in (A, B))
        ctx.req('OUT', quiet and z.entails_eq(ma.len, ma.len0) and z.entails_eq(mb.len, mb.len0), nm,
                'the comparison must not modify either operand', p)
        slices = [e for e in p.events if e[0] == 'slice']
        loops = [e for e in p.events if e[0] == 'loop']
        outer_key = loops[0][1] if loops else None
        last_loop = max([i for i, e in enumerate(p.events) if e[0] == 'loop' and e[1] == outer_key] or [-1])
        tail = p.events[last_loop + 1:]
        if is_bool(p.val, True):
            ctx.classes['true'] += 1
            outer = slices[0] if slices else None
            ex = [e for e in p.events if e[0] == 'cursor-end' and outer is not None and e[1] == outer[1]]
            full = outer is not None and z.entails_eq(outer[2], 0) and z.entails_eq(outer[3], st.maps[outer[1]].len0)
            if not slices:
                # nothing to scan: only acceptable when the scanned operand is empty
                full = False
            ok = bool(ex) and full
            if ok and outer_is == 'self':
                ok = outer[1] == A
            if ok and outer_is == 'other':
                ok = outer[1] == B
            if not ok and not slices:
                # no scan at all: "every element of the operand" is vacuous exactly when that operand is empty
                empt = {'self': [ma], 'other': [mb], 'either': [ma, mb]}[outer_is]
                ok = any(z.entails_eq(m.len0, 0) for m in empt)
            ctx.req('POL', ok, nm + ':true',
                    'true may be returned only after every element of %s was examined'
                    % {'self': 'the left operand', 'other': 'the right operand', 'either': 'one operand'}[outer_is], p)
            if mode in ('eq', 'seteq'):
                ctx.req('RET-IMPLIES', z.entails_eq(ma.len0, mb.len0), nm + ':true',
                        'true may be returned only when both operands have the same number of entries', p)
            return
        if is_bool(p.val, False):
            ctx.classes['false'] += 1
            conds0 = [e for e in p.events if e[0] == 'cond']
            def on_lens(c):
                while c[0] == 'Not':
                    c = c[1]
                if len(c) != 3 or isinstance(c[1], tuple) or isinstance(c[2], tuple):
                    return False
                x, y = c[1], c[2]
                return (z.entails_eq(x, ma.len0) and z.entails_eq(y, mb.len0)) or \
                    (z.entails_eq(y, ma.len0) and z.entails_eq(x, mb.len0))
            if mode in ('eq', 'seteq') and not z.entails_eq(ma.len0, mb.len0) and any(on_lens(e[1]) for e in conds0):
                # the two lengths were compared on this path and are not equal: false is justified
                # wherever in the function that comparison stands
                ctx.classes['shortcut'] += 1
                return
            pr = _probe(E, st, tail)
            if pr is not None:
                X, kind, hh, probe = pr
                src = probe if (isinstance(probe, tuple) and len(probe) == 4 and probe[0] == 'slot'
                                and probe[1] != X) else None
                if mode == 'disjoint':
                    ok = kind == 'hit' and src is not None
                    why = 'false requires an element of one operand that was found in the other'
                elif mode == 'subset':
                    # (a lookup in an empty container misses without any comparison: probe is None)
                    ok = kind == 'miss' and (src is not None or probe is None)
                    why = 'false requires an element of the scanned operand that was looked up in the other and not found'
                else:
                    ok = (kind == 'miss' and (src is not None or probe is None)) or (
                        kind == 'hit' and src is not None
                        and _value_eq_answer(tail, X, hh, src[1], src[2], z) is False)
                    why = 'false requires a key missing from the other operand or two values that compared unequal'
                ctx.req('POL', ok, nm + ':false', why + ' (lookup seen: %r)' % (pr,), p)
                return
            # no lookup on the deciding part of the path: a length shortcut
            ctx.classes['shortcut'] += 1
            conds = [e for e in p.events if e[0] == 'cond']
            if mode == 'subset':
                sub, sup = (ma, mb) if outer_is == 'self' else (mb, ma)
                ctx.req('SHORTCUT', bool(conds) and z.entails_lt(sup.len0, sub.len0), nm + ':shortcut',
                        'false without scanning is only sound when the would-be subset has more elements than the other set', p)
            elif mode in ('eq', 'seteq'):
                ok = bool(conds) and not z.entails_eq(ma.len0, mb.len0) and any(
                    ma.len0 in _terms(e[1]) and mb.len0 in _terms(e[1]) for e in conds)
                ctx.req('SHORTCUT', ok, nm + ':shortcut',
                        'false without scanning is only sound when the two lengths differ', p)
            else:
                ctx.req('SHORTCUT', False, nm + ':shortcut', 'is_disjoint has no sound shortcut to false', p)
            return
        ctx.req('OUT', False, nm, 'the result is not a definite boolean on this path', p)
    return h


def _terms(t, acc=None):
    if acc is None:
        acc = set()
    if isinstance(t, Term):
        acc.add(t)
    elif isinstance(t, tuple):
        for x in t:
            _terms(x, acc)
    return acc


# ------------------------------------------------------------------------------ set algebra (C08)
DIFF, DIFFREF = 'set::difference::Difference', 'set::difference::difference_ref::DifferenceRef'
INTER, UNION, SYMDIFF = 'set::intersection::Intersection', 'set::union::Union', \
    'set::symmetric_difference::SymmetricDifference'


def _other_map(p, v, exclude):
    """the (non-phantom) container reachable from the iterator value other than its own cursor's"""
    found = []

    def walk(x, d=0):
        if not isinstance(x, tuple) or not x or d > 8:
            return
        if x[0] == 'map':
            if x[1] != exclude and x[1] not in found:
                found.append(x[1])
        elif x[0] == 'ref' and x[2][0] in ('O', 'L'):
            try:
                walk(p.E.load(p.st, x[2], quiet=True), d + 1)
            except Exception:
                pass
        elif x[0] == 'adt':
            for y in x[3]:
                walk(y, d + 1)
        elif x[0] == 'tuple':
            for y in x[1]:
                walk(y, d + 1)
    walk(v)
    return found[0] if len(found) == 1 else None


def _outer_tail(events):
    loops = [e for e in events if e[0] == 'loop']
    if not loops:
        return events
    k = loops[0][1]
    last = max(i for i, e in enumerate(events) if e[0] == 'loop' and e[1] == k)
    return events[last + 1:]


def mentions_z(z, tag, t):
    """does `tag` contain a sub-tag equal to t (index terms compared in the zone)?"""
    if tag_eq(z, tag, t):
        return True
    if isinstance(tag, tuple):
        return any(mentions_z(z, x, t) for x in tag if isinstance(x, tuple))
    return False


def mentions_prefix_z(z, tag, prefix):
    if isinstance(tag, tuple):
        if len(tag) >= len(prefix) and tag_eq(z, tag[:len(prefix)], prefix):
            return True
        return any(mentions_prefix_z(z, x, prefix) for x in tag if isinstance(x, tuple))
    return False


def _is_key_of(t, mid):
    return isinstance(t, tuple) and len(t) == 4 and t[0] == 'slot' and t[1] == mid and tuple(t[3]) == (0,)


def h_filter_next(pol):
    def h(ctx, p):
        nm = ctx.body.name
        c0 = cursor_of(p.E, p.self0)
        c1 = cursor_of(p.E, final_self(p))
        if c0 is None or c1 is None:
            ctx.req('OUT', False, nm, 'cannot find the cursor over the left operand', p)
            return
        L, f0, b0, _ = c0
        _, f1, b1, _ = c1
        B = _other_map(p, p.self0, L)
        z = p.z
        if B is None:
            ctx.req('OUT', False, nm, 'cannot find the right operand', p)
            return
        quiet = not [e for e in p.events if e[0] in ('read', 'write', 'len', 'store')]
        ctx.req('OUT', quiet, nm, 'the operands must not be modified', p)
        if is_none(p.val):
            ctx.classes['none'] += 1
            ctx.req('OUT', z.entails_le(b1, f1) and z.entails_eq(b1, b0), nm + ':none',
                    'None may be returned only when the left operand is exhausted', p)
            return
        item = some_of(p.val)
        ctx.classes['some'] += 1
        ok = item is not None and item[0] == 'ref' and item[2][0] == 'pair' and item[2][1] == L and tuple(item[2][3]) == (0,)
        i = item[2][2] if ok else None
        if not ok and item is not None and ctx.body.impl['self'].get('path') == DIFFREF:
            # a set of references: the element itself (a copy of the stored reference) is yielded
            t = vtag(item)
            if t is None and item[0] == 'ref' and item[2][0] == 'opq':
                t = item[2][1]       # the stored reference itself, seen as a pointer into user memory
            ok = isinstance(t, tuple) and len(t) >= 4 and t[0] == 'stored' and t[1] == L and t[3] == 0
            i = t[2] if ok else None
        ctx.req('FLOW', ok, nm + ':some', 'the yielded reference must point to an element of the left operand itself', p)
        if not ok:
            return
        ctx.req('ONCE', z.entails_eq(f1, i, 1) and z.entails_eq(b1, b0) and z.entails_le(f0, i), nm + ':some',
                'the cursor must stand right behind the yielded element (no element is yielded twice or lost)', p)
        pr = _probe(p.E, p.st, _outer_tail(p.events))
        if pr is None or pr[0] != B:
            ctx.req('POL', False, nm + ':some', 'the yielded element was not looked up in the right operand', p)
            return
        _, kind, hh, probe = pr
        mine = (probe is None and kind == 'miss') or (_is_key_of(probe, L) and z.entails_eq(probe[2], i)) or (
            isinstance(probe, tuple) and len(probe) >= 4 and probe[0] == 'stored' and probe[1] == L and probe[3] == 0
            and z.entails_eq(probe[2], i))
        if pol == 'diff':
            ctx.req('POL', kind == 'miss' and mine, nm + ':some',
                    'an element may be yielded only if it was looked up in the right operand and NOT found', p)
        else:
            ctx.req('POL', kind == 'hit' and mine, nm + ':some',
                    'an element may be yielded only if it was looked up in the right operand and found', p)
    return h


def filter_iteration(pol, via_fold):
    """skipped elements of next() / every element of fold(): membership polarity and callback discipline"""
    def mk(props):
        def hook(E, body, key, st, seg, depth=0):
            pr = _probe(E, st, seg)
            if pr is None:
                return
            it = Iteration(E, st, seg)
            nm = body.name
            X, kind, hh, probe = pr
            calls = [e for e in seg if e[0] == 'user' and (e[1].endswith('::call_mut') or e[1].endswith('::call_once')
                                                          or e[1].endswith('::call'))]
            if not via_fold:
                E.iter_classes['skipped'] += 1
                want = 'hit' if pol == 'diff' else 'miss'
                it_req(E, props, 'POL', kind == want, nm + ':skip',
                       'an element may be skipped only if it was %s in the right operand'
                       % ('found' if pol == 'diff' else 'not found'), it)
                return
            keep = (kind == 'miss') if pol == 'diff' else (kind == 'hit')
            back = [e for e in seg if e[0] == 'adv' and len(e) > 3 and e[3] == 'back' and e[1] != X]
            it_req(E, props, 'ORDER', not back, nm + ':fold',
                   'fold must visit the elements in the order in which next() yields them (front to back)', it)
            if kind == 'unknown':
                it_req(E, props, 'POL', False, nm + ':fold', 'the element was not conclusively looked up in the right operand', it)
                return
            if keep:
                E.iter_classes['folded'] += 1
                ok = len(calls) == 1
                if ok and probe is not None:
                    if isinstance(probe, tuple) and len(probe) == 4 and probe[0] == 'slot':
                        ok = mentions_z(st.zone, calls[0][2], probe) \
                            or mentions_prefix_z(st.zone, calls[0][2], ('stored', probe[1], probe[2], 0))
                it_req(E, props, 'POL', ok, nm + ':fold',
                       'fold must pass exactly the elements that next() would yield to the closure, once each', it)
            else:
                E.iter_classes['dropped'] += 1
                it_req(E, props, 'POL', not calls, nm + ':fold',
                       'fold must not pass an element to the closure that next() would skip', it)
        return hook
    return mk


def h_filter_hint(pol):
    def h(ctx, p):
        nm = ctx.body.name
        from .interp import to_aff, aff_add, aff_norm
        c0 = cursor_of(p.E, p.self0)
        B = _other_map(p, p.self0, c0[0]) if c0 else None
        if c0 is None or B is None:
            ctx.req('HINT', False, nm, 'cannot find the operands', p)
            return
        L, f0, b0, _ = c0
        z = p.z
        olen = p.st.maps[B].len0
        rem = ('slen', f0, b0)
        v = p.val
        ctx.classes['hint'] += 1
        if not (v[0] == 'tuple' and len(v[1]) == 2):
            ctx.req('HINT', False, nm, 'size_hint must return a pair', p)
            return
        lower, upper = v[1]

        def same(x, y):
            ax, ay = to_aff(x), to_aff(y)
            if ax is None or ay is None:
                return False
            d = aff_add(ax, ay, -1)
            if not d[0]:
                return d[1] == 0
            # equal up to zone equalities of the terms involved
            return False
        diff_expr = aff_norm(aff_add(to_aff(rem), to_aff(('int', olen)), -1))
        if pol == 'diff':
            # at least max(0, remaining - |other|) items will come (keys of the other set are unique)
            ok_lo = lower == ('int', 0) or (lower[0] == 'satsub' and same(lower[1], diff_expr)) \
                or (same(lower, diff_expr) and z.entails_le(olen, b0) and z.entails_eq(f0, 0)) \
                or (same(lower, diff_expr) and z.entails_lt(olen, b0))
            ctx.req('HINT', ok_lo, nm + ':lower',
                    'the lower bound may not exceed max(0, remaining - other.len())', p)
            up = some_of(upper)
            ok_up = is_none(upper) or (up is not None and same(up, rem))
            ctx.req('HINT', ok_up, nm + ':upper', 'the upper bound may not be below the number of remaining elements', p)
        else:
            ctx.req('HINT', lower == ('int', 0), nm + ':lower', 'the lower bound of an intersection must be 0', p)
            up = some_of(upper)
            ok_up = is_none(upper) or (up is not None and (
                same(up, rem) or same(up, ('int', olen)) or (
                    up[0] == 'minof' and {True} == {same(up[1], rem) or same(up[1], ('int', olen))}
                    and (same(up[2], rem) or same(up[2], ('int', olen))) and not same(up[1], up[2])) or False))
            # (remaining, other.len() or their minimum are all valid upper bounds only if >= the true maximum
            #  min(remaining, other.len()); `remaining` and the minimum qualify, other.len() alone does not)
            if up is not None and same(up, ('int', olen)) and not same(up, rem):
                # other.len() alone is a valid upper bound only on a path where other.len() <= remaining
                ok_up = _path_implies_le(p, ('int', olen), rem, same)
            ctx.req('HINT', ok_up, nm + ':upper',
                    'the upper bound may not be below min(remaining, other.len())', p)
    return h


def _path_implies_le(p, a, b, same):
    """do the integer branch decisions taken on this path imply a <= b ?  (a, b abstract ints)"""
    for e in p.events:
        if e[0] != 'cond':
            continue
        c, truth = e[1], e[2]
        while c[0] == 'Not':
            c, truth = c[1], not truth
        op, x, y = c

        def val(t):
            return t if isinstance(t, tuple) else ('int', t)
        x, y = val(x), val(y)
        if not truth:
            op = {'Lt': 'Ge', 'Le': 'Gt', 'Gt': 'Le', 'Ge': 'Lt', 'Eq': 'Ne', 'Ne': 'Eq'}[op]
        # normalise to  L <= R  or  L < R
        if op in ('Ge', 'Gt'):
            x, y = y, x
            op = {'Ge': 'Le', 'Gt': 'Lt'}[op]
        if op in ('Le', 'Lt', 'Eq') and same(x, a) and same(y, b):
            return True
        if op == 'Eq' and same(x, b) and same(y, a):
            return True
    return False


def _describe_parts(p, v):
    """structure of a set-algebra iterator value: list of ('plain', mid, lo, hi) / ('filter', path, mid, lo, hi, other)"""
    out = []

    def walk(x, d=0):
        if not isinstance(x, tuple) or not x or d > 10:
            return
        if x[0] == 'adt' and x[1] in (DIFF, DIFFREF, INTER):
            c = cursor_of(p.E, x)
            o = _other_map(p, x, c[0] if c else None)
            out.append(('filter', x[1], c[0] if c else None, c[1] if c else None, c[2] if c else None, o))
            return
        if x[0] == 'sliceit':
            out.append(('plain', x[1], x[2], x[3]))
            return
        cv = p.E.cursor_view(x)
        if cv is not None:
            out.append(('plain', cv[1], cv[2], cv[3]))
            return
        if x[0] == 'adt':
            for y in x[3]:
                walk(y, d + 1)
        elif x[0] == 'tuple':
            for y in x[1]:
                walk(y, d + 1)
    walk(v)
    return out


def h_make_algebra(kind):
    def h(ctx, p):
        nm = ctx.body.name
        ctx.classes['made'] += 1
        A = p.subjects_all[0][0] if p.subjects_all and p.subjects_all[0] else None
        B = p.subjects_all[1][0] if len(p.subjects_all) > 1 and p.subjects_all[1] else None
        z, st = p.z, p.st
        if A is None or B is None:
            ctx.req('FLOW', False, nm, 'cannot identify the two operands', p)
            return
        quiet = not [e for e in p.events if e[0] in ('read', 'write', 'len', 'store')]
        ctx.req('OUT', quiet, nm, 'building a lazy set-algebra iterator must not modify the operands', p)
        parts = _describe_parts(p, p.val)

        def full(mid, lo, hi):
            return mid is not None and z.entails_eq(lo, 0) and z.entails_eq(hi, st.maps[mid].len0)
        if kind in ('difference', 'intersection'):
            want = {'difference': (DIFF, DIFFREF), 'intersection': (INTER,)}[kind]
            ok = len(parts) == 1 and parts[0][0] == 'filter' and parts[0][1] in want and parts[0][2] == A \
                and full(A, parts[0][3], parts[0][4]) and parts[0][5] == B
            ctx.req('FLOW', ok, nm, 'must iterate over all of self and filter by membership in other', p)
            return
        if kind == 'union':
            ok = len(parts) == 2 and parts[0][0] == 'plain' and parts[1][0] == 'filter' and parts[1][1] in (DIFF, DIFFREF)
            if ok:
                X = parts[0][1]
                Y = parts[1][2]
                ok = {X, Y} == {A, B} and full(X, parts[0][2], parts[0][3]) and full(Y, parts[1][3], parts[1][4]) \
                    and parts[1][5] == X
            ctx.req('FLOW', ok, nm,
                    'union must be all of one operand chained with the difference of the other operand minus that one', p)
            return
        if kind == 'symmetric_difference':
            ok = len(parts) == 2 and all(q[0] == 'filter' and q[1] in (DIFF, DIFFREF) for q in parts)
            if ok:
                ok = {parts[0][2], parts[1][2]} == {A, B} and parts[0][5] == parts[1][2] and parts[1][5] == parts[0][2] \
                    and full(parts[0][2], parts[0][3], parts[0][4]) and full(parts[1][2], parts[1][3], parts[1][4])
            ctx.req('FLOW', ok, nm, 'symmetric difference must be (A minus B) chained with (B minus A)', p)
    return h


# ------------------------------------------------------------------------------ serde (C20, feature serde)
def _is_err_from(val):
    """Err(e) where e is (From::from of) the error of a failed user call, whether built by `?` or by an
    explicit `return Err(e)`: -> provenance tag of that user call's error, else None"""
    if not (val[0] == 'adt' and val[1] == RESULT and val[2] == 1 and val[3]):
        return None
    t = vtag(val[3][0])
    if not isinstance(t, tuple):
        return None
    if t[:1] == ('from',) and len(t) > 1:
        t = t[1]
    # (the tag of a call result is ('u', def, args); an Err payload taken out of it carries a variant suffix)
    if isinstance(t, tuple) and len(t) > 3 and t[0] == 'u' and isinstance(t[1], str) and 'serde::' in t[1] \
            and (t[3] == 'err' or t[3:5] == (1, 0)):
        return t
    return None


def _err_is_propagated(p, e):
    """the error tag e stems from a user call that was made on this path and answered Err"""
    calls = [x for x in p.user if x[1] == e[1]]
    return bool(calls)


def h_serialize(begin, entry):
    def h(ctx, p):
        nm = 'serialize'
        z, ms = p.z, p.ms
        begins = [e for e in p.user if e[1].endswith('::' + begin)]
        ok = len(begins) == 1 and len(begins[0][2]) >= 2 and begins[0][2][1][:1] == ('some',) \
            and begins[0][2][1][1][:1] == ('int',) and ms is not None and z.entails_eq(begins[0][2][1][1][1], ms.len0)
        ctx.req('FLOW', ok, nm, 'the serializer must be told Some(len()) exactly once, before any entry', p)
        ctx.req('OUT', p.untouched() and p.len_is(0), nm, 'serializing must not change the container', p)
        e = _is_err_from(p.val)
        if e is not None:
            ctx.classes['error'] += 1
            ctx.req('ERRPROP', _err_is_propagated(p, e), nm + ':error',
                    'an error may only be the propagated error of the serializer call that failed', p)
            return
        ctx.classes['done'] += 1
        t = vtag(p.val)
        ok = isinstance(t, tuple) and len(t) >= 2 and t[0] == 'u' and t[1].endswith('::end')
        ctx.req('FLOW', ok, nm + ':done', 'the result must be that of the end() call of the serializer state', p)
        # which stored elements reached the serializer: one contiguous run of slots equal to the live prefix
        # (whatever drives the loop: a slice iterator, an index loop, ...), each exactly once
        st = p.st
        g0, g1 = st.ghost.get(('span0', p.mid)), st.ghost.get(('span1', p.mid))
        bad = ('spanbad', p.mid) in st.ghost
        if z.entails_eq(ms.len0, 0):
            ok = g1 is None and not bad
        else:
            ok = g0 is not None and g1 is not None and not bad and z.entails_eq(g0[0], 0) and z.entails_eq(g1[0], ms.len0)
        seen = 'none' if g0 is None or g1 is None else '[%s,%s)%s' % (g0[0], g1[0], ' (not one contiguous run)' if bad else '')
        ctx.req('ROOTSLICE', ok, nm + ':done', 'the entries emitted must be those of the live prefix [0, len), each once '
                '(slots whose element reached the serializer: %s)' % seen, p)
        ln = st.ghost.get(('spanlen', p.mid))
        if ok and g1 is not None:
            for sub in ((0,), (1,)) if entry == 'serialize_entry' else ((0,),):
                n = st.ghost.get(('fmtn', p.mid, sub))
                ctx.req('ONCE', n is not None and ln is not None and z.entails_eq(n[0], ln[0]), nm + ':done',
                        'the %s of every stored element must be handed to the serializer exactly once (%s times for %s elements)'
                        % ('key' if sub == (0,) else 'value', n[0] if n else 0, ln[0] if ln else 0), p)
        # no serializer error may be swallowed on the way to end()
        errs = [x for x in p.events if x[0] == 'variant' and x[2] == 1 and isinstance(x[1], tuple) and x[1][:1] == ('u',)
                and 'serde::ser' in str(x[1][1])]
        ctx.req('ERRPROP', not errs, nm + ':done', 'a serializer error must not be swallowed', p)
    return h


def serialize_iteration(entry, nargs):
    def mk(props):
        def hook(E, body, key, st, seg, depth=0):
            calls = [e for e in seg if e[0] == 'user' and e[1].endswith('::' + entry)]
            if not calls:
                return
            it = Iteration(E, st, seg)
            nm = body.name
            E.iter_classes['entry'] += 1
            it_req(E, props, 'ONCE', len(calls) == 1, nm + ':iteration', 'exactly one entry must be emitted per stored element', it)
            a = calls[0][2]
            z = st.zone
            ok = len(a) == 1 + nargs and isinstance(a[1], tuple) and a[1][:1] == ('slot',) and tuple(a[1][3]) == (0,)
            if ok and nargs == 2:
                ok = isinstance(a[2], tuple) and a[2][:1] == ('slot',) and a[2][1] == a[1][1] and tuple(a[2][3]) == (1,) \
                    and z.entails_eq(a[1][2], a[2][2])
            it_req(E, props, 'FLOW', ok, nm + ':iteration',
                   'the entry emitted must consist of the key%s of one stored element' % (' and the value' if nargs == 2 else ''), it)
            bad = [e for e in seg if e[0] == 'variant' and e[2] == 1 and isinstance(e[1], tuple) and e[1][:1] == ('u',)
                   and e[1][1].endswith('::' + entry)]
            it_req(E, props, 'ERRPROP', not bad, nm + ':iteration', 'the loop must not continue after an element failed to serialize', it)
            seen_ok = [e for e in seg if e[0] == 'variant' and e[2] == 0 and isinstance(e[1], tuple) and e[1][:1] == ('u',)
                       and e[1][1].endswith('::' + entry)]
            it_req(E, props, 'ERRPROP', bool(seen_ok), nm + ':iteration',
                   'the loop may go on only after the result of the serializer call was examined and found Ok '
                   '(a result that is discarded unexamined swallows the error)', it)
        return hook
    return mk


def h_visit(pull):
    """Visitor::visit_map / visit_seq: new(); loop(next -> insert) until the source reports the end"""
    def h(ctx, p):
        nm = ctx.body.name
        z = p.z
        e = _is_err_from(p.val)
        if e is not None:
            ctx.classes['error'] += 1
            ctx.req('ERRPROP', _err_is_propagated(p, e), nm + ':error',
                    'an error may only be the propagated error of the access call that failed', p)
            return
        if p.val[0] == 'adt' and p.val[1] == RESULT and p.val[2] == 1:
            # an error made up by the visitor itself: only sound when the input provably exceeds the capacity
            ctx.classes['refused'] += 1
            capt = Term('$N')
            ints = [t for t in _terms(p.val) if isinstance(t, Term)]
            exceeds = any(z.entails_lt(capt, t) for t in ints)
            ctx.req('OUT', exceeds, nm + ':refused',
                    'the visitor refuses input by itself; this is only acceptable when the announced length '
                    'provably exceeds N, which is not established on this path', p)
            return
        ctx.classes['done'] += 1
        mid = map_in(p.E, p.val)
        ms = p.st.maps.get(mid) if mid else None
        ok = p.val[0] == 'adt' and p.val[1] == RESULT and p.val[2] == 0 and ms is not None and ms.len0 is None
        ctx.req('FLOW', ok, nm + ':done', 'the result must be Ok(container built from new() inside the call)', p)
        pulls = [i for i, x in enumerate(p.events) if x[0] == 'user' and x[1].endswith('::' + pull)]
        ended = False
        if pulls:
            after = p.events[pulls[-1] + 1:]
            vs = [x for x in after if x[0] == 'variant']
            # Ok(..) then None
            ended = len(vs) >= 2 and vs[0][2] == 0 and vs[1][2] == 0
        ctx.req('ONCE', ended, nm + ':done',
                'Ok may be returned only after the source itself reported the end of the input (so every entry '
                'that was serialized is read back)', p)
    return h


def _pulled_access(name):
    return lambda e: e[0] == 'user' and e[1].endswith('::' + name)


def _item_of_access(e):
    return ('u', e[1], e[2])


def h_deserialize(entry):
    def h(ctx, p):
        nm = 'deserialize'
        ctx.classes['done'] += 1
        calls = [e for e in p.user if e[1].endswith('::' + entry)]
        t = vtag(p.val)
        ok = len(calls) == 1 and isinstance(t, tuple) and len(t) >= 2 and t[0] == 'u' and t[1].endswith('::' + entry)
        ctx.req('FLOW', ok, nm, 'must hand the visitor to the deserializer exactly once and return its result', p)
    return h


# ------------------------------------------------------------------------------ get_disjoint_mut (C13)
def _request_eq(e):
    """an answer to `request key == request key` (neither side is a stored key): -> truth, else None"""
    if e[0] != 'assume':
        return None
    tag, truth = _norm_answer(e[1], e[2])
    if not (isinstance(tag, tuple) and len(tag) == 3 and tag[0] == 'eq'):
        return None
    for side in tag[1:]:
        if 'slot' in str(side) or 'stored' in str(side):
            return None
    return truth


def precheck_iteration(props):
    """the overlap pre-check of get_disjoint_mut: the scan continues only while the compared requests differ"""
    def hook(E, body, key, st, seg, depth=0):
        answers = [a for a in (_request_eq(e) for e in seg) if a is not None]
        if not answers:
            return
        it = Iteration(E, st, seg)
        E.iter_classes['compared'] += 1
        it_req(E, props, 'MUSTPASS', not any(answers), body.name + ':precheck',
               'the pre-check may continue only when the two compared request keys were found different '
               '(equal requests must panic)', it)
    return hook


def h_unchecked_disjoint(ctx, p):
    """the unsafe body under its contract (requests pairwise different): it must not move, write or re-count
    anything; its unchecked accesses are obligations of the safety rules, which count for C13 and C18 here"""
    ctx.classes['returned'] += 1
    ctx.req('OUT', not p.reads and not p.writes and not p.lens, ctx.body.name,
            'must not move, write or re-count any element', p)
    _single_request_rule(ctx, p)


def _probed_requests(p, req):
    """indices of the request array whose element was compared with a stored key on this path"""
    out = []
    for e in p.user:
        if not e[1].endswith('PartialEq::eq'):
            continue
        sides = [p.E.strip_borrow(t) for t in e[2]]
        if not any(isinstance(t, tuple) and len(t) == 4 and t[0] == 'slot' for t in sides):
            continue
        for t in sides:
            if isinstance(t, tuple) and len(t) >= 3 and t[0] == 'elem' and (t[1] == req or (
                    isinstance(req, tuple) and isinstance(t[1], tuple) and t[1][:len(req)] == req)):
                out.append(t[2])
    return out


def _single_request_rule(ctx, p):
    """a path that looked up only request 0 (the single-request shortcut) is only sound for J <= 1"""
    req = p.arg.get(1)
    pr = _probed_requests(p, req)
    if pr and all(isinstance(i, int) for i in pr):
        ctx.req('PAIRS', p.z.entails_le(Term('$J'), max(pr) + 1), ctx.body.name + ':shortcut',
                'only request(s) %s were looked up on this path although J is not known to be <= %d: the other '
                'requests get no answer' % (sorted(set(pr)), max(pr) + 1), p)


def h_get_disjoint(ctx, p):
    nm = ctx.body.name
    if not p.z.entails_le(1, Term('$J')) and not (p.ms is not None and p.z.entails_eq(p.ms.len0, 0)):
        # returns normally with nothing known to exclude J == 0 on a non-empty map
        ctx.classes['empty-request-ok'] += 1
    _single_request_rule(ctx, p)
    acc = [i for i, e in enumerate(p.events) if e[0] in ('slice', 'at') and e[1] == p.mid]
    ctx.req('OUT', not p.reads and not p.writes and not p.lens, nm, 'must not move, write or re-count any element', p)
    if not acc:
        ctx.classes['no-access'] += 1
        return
    ctx.classes['access'] += 1
    before = p.events[:acc[0]]
    eq_true = [e for e in before if _request_eq(e) is True or e[0] == 'pair-equal']
    ctx.req('MUSTPASS', not eq_true, nm,
            'no path on which two request keys compared equal may reach the unchecked body (it must panic)', p)
    # all pairs i < j < J of the request array were compared (and found different) when the
    # container is first touched
    req = p.arg.get(1)

    def mine(k):
        return k == req or (isinstance(k, tuple) and isinstance(req, tuple) and k[:len(req)] == req)
    first = [e for e in p.events if e[0] == 'pairs']
    done = None
    rec = None
    if first:
        for k, ok, r, _ in first[0][1]:
            if mine(k):
                done, rec = ok, r
    else:
        for k in p.st.pairs:
            if mine(k):
                done, rec = p.E.pairs_complete(p.st, k), p.st.pairs.get(k)
    if done is None:
        # the request array was never iterated: only sound when it has at most one element
        done = p.z.entails_le(Term('$J'), 1)
    ctx.req('PAIRS', bool(done), nm,
            'the unchecked body may be entered only after EVERY pair of request keys was compared '
            '(compared prefix of the request array when the container is first touched: %s)' % (rec,), p)


# ------------------------------------------------------------------------------ thin delegations
# ------------------------------------------------------------------------------ merged set-algebra iterators (C08)
# Union and SymmetricDifference present several PARTS as one sequence.  A part is a cursor over one operand:
# 'plain' (all of it) or 'filter' (a Difference/Intersection: elements that miss/hit in the other operand).
# What the parts are is decided at the constructor (h_make_algebra); here: every method treats each part the
# way that part's own iterator would, loses no element and invents none -- however the struct is laid out
# (core's Chain, two named fields, ...).
class _PS:
    def __init__(self, E, st):
        self.E, self.st = E, st


def _part_mid(q):
    return q[1] if q[0] == 'plain' else q[2]


def _part_cur(q):
    return (q[2], q[3]) if q[0] == 'plain' else (q[3], q[4])


def _parts_by_mid(p, v):
    P = _describe_parts(p, v) if v is not None else []
    m = {}
    for q in P:
        k = _part_mid(q)
        if k is None or k in m:
            return P, None
        m[k] = q
    return P, m


def _roles(E):
    """container id -> part of the root's receiver, as it was at entry"""
    c = getattr(E, '_roles_cache', None)
    if c is not None and c[0] == E.root:
        return c[1]
    roles = {}
    ent = getattr(E, 'root_entry', None)
    if ent is not None and ent[0]:
        args, st0 = ent
        v = args[0]
        d = 0
        while v is not None and v[0] == 'ref' and d < 4:
            try:
                v = E.load(st0, v[2], quiet=True)
            except Exception:
                v = None
            d += 1
        _, m = _parts_by_mid(_PS(E, st0), v)
        roles = m or {}
    E._roles_cache = (E.root, roles)
    return roles


def _yielded_slot(item, body):
    """(container, index) of the element a yielded reference points to"""
    if item is None:
        return None
    if item[0] == 'ref' and item[2][0] == 'pair' and tuple(item[2][3]) == (0,):
        return item[2][1], item[2][2]
    t = vtag(item)
    if t is None and item[0] == 'ref' and item[2][0] == 'opq':
        t = item[2][1]
    if isinstance(t, tuple) and len(t) >= 4 and t[0] == 'stored' and t[3] == 0:
        return t[1], t[2]
    return None


def h_merge_next(ctx, p):
    nm = ctx.body.name
    z = p.z
    P0, m0 = _parts_by_mid(p, p.self0)
    P1, m1 = _parts_by_mid(p, final_self(p))
    if not m0 or m1 is None:
        ctx.req('FLOW', False, nm, 'cannot identify the parts (cursor over an operand, plain or filtered) of the iterator', p)
        return
    quiet = not [e for e in p.events if e[0] in ('read', 'write', 'len', 'store')]
    ctx.req('OUT', quiet, nm, 'the operands must not be modified', p)
    ends = {e[1] for e in p.events if e[0] == 'cursor-end'}

    def exhausted(mid):
        q = m1.get(mid)
        if q is None:       # the part is gone (e.g. a fused half of a Chain): only after it ended
            f0, b0 = _part_cur(m0[mid])
            return mid in ends or z.entails_le(b0, f0)
        f1, b1 = _part_cur(q)
        return z.entails_le(b1, f1)

    if is_none(p.val):
        ctx.classes['none'] += 1
        ctx.req('OUT', all(exhausted(m) for m in m0), nm + ':none',
                'None may be returned only when every part is exhausted', p)
        return
    ctx.classes['some'] += 1
    ys = _yielded_slot(some_of(p.val), ctx.body)
    ok = ys is not None and ys[0] in m0
    ctx.req('FLOW', ok, nm + ':some', 'the yielded reference must point to an element of one of the operands themselves', p)
    if not ok:
        return
    X, i = ys
    q0, q1 = m0[X], m1.get(X)
    f0, b0 = _part_cur(q0)
    ok = q1 is not None
    if ok:
        f1, b1 = _part_cur(q1)
        ok = z.entails_eq(f1, i, 1) and z.entails_eq(b1, b0) and z.entails_le(f0, i)
    ctx.req('ONCE', ok, nm + ':some',
            'the cursor of the part must stand right behind the yielded element (no element is yielded twice or lost)', p)
    order = list(m0)
    for m in m0:
        if m == X:
            continue
        r1 = m1.get(m)
        same = r1 is not None and z.entails_eq(_part_cur(r1)[0], _part_cur(m0[m])[0]) \
            and z.entails_eq(_part_cur(r1)[1], _part_cur(m0[m])[1])
        if same and not z.entails_le(_part_cur(m0[m])[1], _part_cur(m0[m])[0]):
            # X yields while m, untouched, may still have elements: next() takes X's elements before m's
            getattr(p.E, 'part_order', set()).add((order.index(X), order.index(m)))
        ctx.req('ONCE', same or exhausted(m), nm + ':some',
                'while one part yields, every other part must keep its position (or be exhausted)', p)
    if q0[0] == 'filter':
        pol = 'inter' if q0[1] == INTER else 'diff'
        B = q0[5]
        pr = _probe(p.E, p.st, _outer_tail(p.events))
        if pr is None or pr[0] != B:
            ctx.req('POL', False, nm + ':some', 'the yielded element of a filtered part was not looked up in the other operand', p)
            return
        _, kind, hh, probe = pr
        mine = (probe is None and kind == 'miss') or (_is_key_of(probe, X) and z.entails_eq(probe[2], i)) or (
            isinstance(probe, tuple) and len(probe) >= 4 and probe[0] == 'stored' and probe[1] == X and probe[3] == 0
            and z.entails_eq(probe[2], i))
        want = 'miss' if pol == 'diff' else 'hit'
        ctx.req('POL', kind == want and mine, nm + ':some',
                'an element of a filtered part may be yielded only if it was looked up in the other operand and %s'
                % ('NOT found' if pol == 'diff' else 'found'), p)


def _mentions_elem(z, tag, mid, idx):
    """does the provenance tag refer to element idx of container mid (reference to it, or the stored value)?"""
    return mentions_z(z, tag, ('slot', mid, idx, (0,))) or mentions_z(z, tag, ('pair', mid, idx, (0,))) \
        or mentions_prefix_z(z, tag, ('stored', mid, idx, 0))


def _mentions_any_elem(tag, mid):
    if isinstance(tag, tuple):
        if len(tag) >= 4 and tag[0] in ('slot', 'pair', 'stored') and tag[1] == mid:
            return True
        return any(_mentions_any_elem(x, mid) for x in tag if isinstance(x, tuple))
    return False


def _ghost_bump(st, key, mid):
    """one more kept element of container `mid` was seen in an iteration of loop `key`"""
    g = st.ghost.get(key)
    if g is None:
        t, mids = 0, ()
    else:
        t, mids = g
    st.ghost[key] = (slots.plus(st, t, 1), tuple(sorted(set(mids) | {mid})))


def _cursor_now(E, st, mid):
    """(front, back) of the slice cursor over container mid held anywhere in the state (None if none / several)"""
    found = []
    for fr in st.frames.values():
        for v in fr.values():
            found.extend(x for x in E.sliceits_in(v) if x[1] == mid)
    for v in st.objs.values():
        found.extend(x for x in E.sliceits_in(v) if x[1] == mid)
    cs = {(x[2], x[3]) for x in found}
    if len(cs) == 1:
        return next(iter(cs))
    return None


def merge_iteration(mode):
    """per loop iteration of next / fold / count of a merged iterator: the part whose cursor advanced decides
    what must happen to the element (plain: always kept; filtered: kept iff the lookup says so)"""
    def mk(props):
        def hook(E, body, key, st, seg, depth=0):
            roles = _roles(E)
            advs = [e for e in seg if e[0] == 'adv' and e[1] in roles]
            if not roles or not advs:
                return
            lookup = any(e[0] in ('slice', 'loop') for e in seg)
            keyeq = any(e[0] == 'user' and e[1].endswith('PartialEq::eq') for e in seg)
            if keyeq and not lookup:
                return          # one step of a lookup scan over an operand, not an iteration of the operation
            mid, idx = advs[0][1], advs[0][2]
            role = roles[mid]
            it = Iteration(E, st, seg)
            nm = body.name
            if mode == 'fold':
                it_req(E, props, 'ORDER', not (len(advs[0]) > 3 and advs[0][3] == 'back'), nm + ':fold',
                       'fold must visit the elements in the order in which next() yields them (front to back)', it)
                order = list(roles)
                for m2 in roles:
                    if m2 == mid:
                        continue
                    cur = _cursor_now(E, st, m2)
                    if cur is not None and not st.zone.entails_le(cur[1], cur[0]) \
                            and st.zone.entails_eq(cur[0], _part_cur(roles[m2])[0]):
                        # an element of this part is folded while part m2 has not been started and may have
                        # elements: fold takes this part's elements before m2's
                        getattr(E, 'part_order', set()).add((order.index(mid), order.index(m2)))
            calls = [e for e in seg if e[0] == 'user' and (e[1].endswith('::call_mut') or e[1].endswith('::call_once')
                                                          or e[1].endswith('::call') or e[1] == 'call')]
            consumed = isinstance(key, tuple) and key and key[0] in ('fold', 'count')   # the std driver's own loop
            if role[0] == 'plain':
                if mode == 'next':
                    E.iter_classes['skipped'] += 1
                    it_req(E, props, 'POL', False, nm + ':skip',
                           'an element of the unfiltered operand was passed over without being yielded', it)
                elif mode == 'fold':
                    E.iter_classes['folded'] += 1
                    ok = len(calls) == 1 and _mentions_elem(st.zone, calls[0][2], mid, idx)
                    it_req(E, props, 'POL', ok, nm + ':fold',
                           'fold must pass every element of the unfiltered operand to the closure exactly once', it)
                else:
                    E.iter_classes['counted'] += 1
                    _ghost_bump(st, key, mid)
                return
            pol = 'inter' if role[1] == INTER else 'diff'
            pr = _probe(E, st, seg)
            if pr is None or pr[0] != role[5] or pr[1] == 'unknown':
                it_req(E, props, 'POL', False, nm + ':' + mode,
                       'the element of a filtered part was not conclusively looked up in the other operand '
                       '(lookup seen: %r)' % (pr,), it)
                return
            X, kind, hh, probe = pr
            keep = (kind == 'miss') if pol == 'diff' else (kind == 'hit')
            if mode == 'next':
                E.iter_classes['skipped'] += 1
                it_req(E, props, 'POL', not keep, nm + ':skip',
                       'an element of a filtered part may be passed over only if next() of that part would skip it', it)
            elif mode == 'fold':
                if keep:
                    E.iter_classes['folded'] += 1
                    # (which element: the one that was looked up -- index terms logged before an inner loop are
                    #  no longer known to the zone; an empty other operand leaves no probe at all)
                    if isinstance(probe, tuple) and len(probe) == 4 and probe[0] in ('slot', 'stored') and probe[1] == mid:
                        ok = len(calls) == 1 and _mentions_elem(st.zone, calls[0][2], mid, probe[2])
                    else:
                        ok = len(calls) == 1 and _mentions_any_elem(calls[0][2], mid)
                    it_req(E, props, 'POL', ok, nm + ':fold',
                           'fold must pass exactly the elements that next() would yield to the closure, once each', it)
                else:
                    E.iter_classes['dropped'] += 1
                    it_req(E, props, 'POL', not calls, nm + ':fold',
                           'fold must not pass an element to the closure that next() would skip', it)
            else:
                E.iter_classes['counted' if keep else 'skipped'] += 1
                if keep:
                    _ghost_bump(st, key, mid)
        return hook
    return mk


def h_merge_hint(ctx, p):
    nm = ctx.body.name
    from .interp import to_aff, aff_add, aff_norm
    import itertools
    z = p.z
    P0, m0 = _parts_by_mid(p, p.self0)
    ctx.classes['hint'] += 1
    if not m0:
        ctx.req('HINT', False, nm, 'cannot identify the parts of the iterator', p)
        return
    v = p.val
    if not (v[0] == 'tuple' and len(v[1]) == 2):
        ctx.req('HINT', False, nm, 'size_hint must return a pair', p)
        return
    lower, upper = v[1]

    def same(x, y):
        ax, ay = to_aff(x), to_aff(y)
        if ax is None or ay is None:
            return False
        d = aff_add(ax, ay, -1)
        return not d[0] and d[1] == 0

    def rem(q):
        f, b = _part_cur(q)
        return ('slen', f, b)

    def total(qs):
        acc = ((), 0)
        for q in qs:
            acc = aff_add(acc, to_aff(rem(q)), 1)
        return aff_norm(acc)

    def part_lower_ok(x, q):
        if x == ('int', 0):
            return True
        if q[0] == 'plain':
            return same(x, rem(q))
        if q[1] == INTER:
            return False
        olen = p.st.maps[q[5]].len0
        d = aff_norm(aff_add(to_aff(rem(q)), to_aff(('int', olen)), -1))
        return (x[0] == 'satsub' and same(x[1], d)) or (same(x, d) and z.entails_lt(olen, _part_cur(q)[1]))

    def aff_candidates(q):
        """affine expressions that are valid lower bounds for part q on this path"""
        out = [((), 0)]
        if q[0] == 'plain':
            out.append(to_aff(rem(q)))
        elif q[1] != INTER:
            olen = p.st.maps[q[5]].len0
            if z.entails_lt(olen, _part_cur(q)[1]):
                out.append(aff_add(to_aff(rem(q)), to_aff(('int', olen)), -1))
        return out

    def lower_ok(x):
        if x == ('int', 0):
            return True
        elems = list(x[1]) if x[0] == 'sum' else [x]
        opaque = [e for e in elems if to_aff(e) is None]
        affs = [e for e in elems if to_aff(e) is not None]
        A = ((), 0)
        for e in affs:
            A = aff_add(A, to_aff(e), 1)
        if len(opaque) > len(P0):
            return False
        for qs in itertools.permutations(P0, len(opaque)):
            if not all(part_lower_ok(e, q) for e, q in zip(opaque, qs)):
                continue
            rest = [q for q in P0 if q not in qs]
            # the affine remainder must be a sum of valid affine lower bounds of distinct remaining parts
            for choice in itertools.product(*[aff_candidates(q) for q in rest]):
                acc = ((), 0)
                for c in choice:
                    acc = aff_add(acc, c, 1)
                d = aff_add(A, acc, -1)
                if not d[0] and d[1] == 0:
                    return True
        return False

    def upper_ok(x):
        if same(x, total(P0)):
            return True
        elems = list(x[1]) if x[0] == 'sum' else [x]
        if len(elems) == len(P0):
            for qs in itertools.permutations(P0):
                if all(same(e, rem(q)) for e, q in zip(elems, qs)):
                    return True
        return False

    ctx.req('HINT', lower_ok(lower), nm + ':lower',
            'the lower bound may not exceed the sum of what the parts are certain to yield '
            '(plain: remaining; difference: max(0, remaining - other.len()))', p)
    up = some_of(upper)
    ctx.req('HINT', is_none(upper) or (up is not None and upper_ok(up)), nm + ':upper',
            'the upper bound may not be below the sum of the remaining elements of all parts', p)
    ctx.req('OUT', not [e for e in p.events if e[0] in ('read', 'write', 'len', 'store')], nm, 'must not change anything', p)


def h_merge_count(ctx, p):
    """count() == number of items next() would still yield.  Evidence about how many elements of which parts
    were kept: (a) what core's default count() reported for a sub-iterator ('counted' events), (b) ghost
    counters -- per loop, the per-iteration hook counts the iterations whose element next() would yield,
    (c) a plain part's remaining length.  The result must be the sum of such figures covering every part once."""
    nm = ctx.body.name
    from .interp import to_aff, aff_add
    import itertools
    ctx.classes['hint'] += 1
    z = p.z
    P0, m0 = _parts_by_mid(p, p.self0)
    if not m0:
        ctx.req('HINT', False, nm, 'cannot identify the parts of the iterator', p)
        return
    ends = {e[1] for e in p.events if e[0] == 'cursor-end'}
    groups = []          # (frozenset of container ids, affine value)
    for e in p.events:
        if e[0] == 'counted' and e[1] and all(m in m0 for m in e[1]):
            groups.append((frozenset(e[1]), to_aff(('int', e[2]))))
    for k, (t, mids) in p.st.ghost.items():
        if mids and all(m in m0 and m in ends for m in mids):
            groups.append((frozenset(mids), to_aff(('int', t))))
    for m, q in m0.items():
        f, b = _part_cur(q)
        if q[0] == 'plain':
            groups.append((frozenset([m]), to_aff(('slen', f, b))))
        if m in ends or z.entails_le(b, f):
            # driven to its end; if no loop iteration kept an element of it, it contributed nothing
            if not any(m in g[0] for g in groups if g[1] != ((), 0)):
                groups.append((frozenset([m]), ((), 0)))
    v = to_aff(p.val) if p.val[0] in ('int', 'slen', 'aff') else None
    if v is not None:
        # name the result's terms after the figures they are equal to
        terms = []
        for t, c in v[0]:
            if z.entails_eq(t, 0):
                continue            # (a counter that is provably still 0)
            for g in groups:
                if len(g[1][0]) == 1 and g[1][1] == 0 and g[1][0][0][1] == 1 and z.entails_eq(t, g[1][0][0][0]):
                    t = g[1][0][0][0]
                    break
            terms.append((t, c))
        v = aff_add(((), 0), (tuple(terms), v[1]), 1)
    ok = False
    if v is not None:
        allm = frozenset(m0)
        for n in range(1, len(groups) + 1):
            for gs in itertools.combinations(groups, n):
                ms = [g[0] for g in gs]
                if sum(len(x) for x in ms) != len(allm) or frozenset().union(*ms) != allm:
                    continue
                acc = ((), 0)
                for g in gs:
                    acc = aff_add(acc, g[1], 1)
                d = aff_add(v, acc, -1)
                if not d[0] and d[1] == 0:
                    ok = True
    ctx.req('HINT', ok, nm,
            'count must be the number of items the parts yield: the count of the whole iterator, or the sum of the '
            'counts of all its parts, each part once (figures available on this path: %s)'
            % ([(sorted(g[0]), g[1]) for g in groups][:6],), p)


def h_merge_fold(ctx, p):
    nm = ctx.body.name
    ctx.classes['folded-all'] += 1
    roles = _roles(p.E)
    ends = {e[1] for e in p.events if e[0] == 'cursor-end'}
    z = p.z
    ok = bool(roles)
    for m, q in roles.items():
        f0, b0 = _part_cur(q)
        if not (m in ends or z.entails_le(b0, f0)):
            ok = False
    ctx.req('POL', ok, nm, 'fold may return only after every part was driven to its end', p)
    # every element a plain cursor advanced over must have reached the closure: counted in the STATE (ghost
    # counters -- the event log of a path that went through a loop head is that of the first arrival there)
    plain = [m for m, q in roles.items() if q[0] == 'plain']
    if len(plain) == 1 and len(roles) == 1 and p.E.track_adv:
        ga = p.st.ghost.get(('adv', plain[0]))
        gc = p.st.ghost.get(('calls',))
        ta = ga[0] if ga else 0
        tc = gc[0] if gc else 0
        ctx.req('POL', z.entails_eq(ta, tc), nm,
                'the closure must have been called exactly once for each element the iterator advanced over '
                '(advanced: %s, calls: %s)' % (ta, tc), p)


LOSSLESS = ('IntoIterator::into_iter', 'Iterator::copied', 'Iterator::cloned', 'Iterator::by_ref')


def _lossless(name):
    """a call that hands on every item of its receiver, in order (incl. core's `impl IntoIterator for [T; N]`)"""
    return any(name.endswith(x) for x in LOSSLESS) or (name.endswith('::into_iter') and 'IntoIterator for' in name)
DRIVERS = ('Iterator::next', 'Iterator::for_each', 'Iterator::fold', 'Iterator::try_for_each', 'Iterator::try_fold')


def source_chain_ok(tag, src):
    """`tag` is the source argument itself, or into_iter()/copied()/cloned()/by_ref() of such a value:
    nothing that could drop, reorder or repeat items stands between the source and the loop"""
    if tag == src:
        return True
    if isinstance(tag, tuple) and len(tag) >= 3 and tag[0] in ('u', 'c') and isinstance(tag[1], str) \
            and _lossless(tag[1]) and isinstance(tag[2], tuple) and tag[2]:
        return source_chain_ok(tag[2][0], src)
    return False


def bulk_source_ok(E, body, events):
    """every call that advances an iterator of user data is a plain driver (next/for_each/fold...) applied
    to the source argument itself -> (ok, offending event)"""
    tags = arg_tags(body)
    src = tags.get(max(tags)) if tags else None
    n = 0
    for e in events:
        if e[0] != 'user' or '::Iterator::' not in e[1] and not e[1].endswith('IntoIterator::into_iter'):
            continue
        if not (isinstance(e[2], tuple) and e[2]):
            continue
        recv = e[2][0]
        if _lossless(e[1]):
            continue
        if any(e[1].endswith(x) for x in DRIVERS):
            n += 1
            if not source_chain_ok(recv, src):
                return False, e
            continue
        # any other Iterator method on user data (take, skip, step_by, filter, nth, rev, ...)
        return False, e
    return True, None


# ------------------------------------------------------------------------------ Sub: &a - &b  (C08)
def _probe_of(E, st, seg, X):
    """outcome of the lookup in container X that was started in this segment"""
    idx = [i for i, e in enumerate(seg) if e[0] == 'slice' and e[1] == X]
    if not idx and E.miss_complete(st, X) == ('<empty>',):
        return 'miss', None, None       # nothing can be found in an empty container, looked up or not
    if not idx:
        if any(e[0] == 'loop' for e in seg) and (any(e[0] == 'hit' and e[1] == X for e in seg)
                                                 or E.miss_complete(st, X) not in (None, ('<empty>',))):
            idx = [0]      # an index-loop lookup: see _probe
    if not idx:
        return None
    rest = seg[idx[-1]:]
    hits = [e for e in rest if e[0] == 'hit' and e[1] == X]
    if hits:
        return 'hit', hits[-1][2], hits[-1][3]
    m = E.miss_complete(st, X)
    if m == ('<empty>',):
        return 'miss', None, None
    if m is not None:
        return 'miss', None, m
    return 'unknown', None, None


def sub_iteration(props):
    """&a - &b: an element of a is cloned into the result iff it was looked up in b and not found"""
    def hook(E, body, key, st, seg, depth=0):
        operands = [m for m, ms in st.maps.items() if ms.borrowed and not ms.phantom and not ms.dead]
        fresh = [m for m, ms in st.maps.items() if ms.len0 is None and not ms.dead]
        if len(operands) != 2 or not fresh:
            return
        it = Iteration(E, st, seg)
        nm = body.name
        z = st.zone
        ins = [e for e in seg if e[0] in ('append', 'hit') and e[1] in fresh]
        if ins:
            E.iter_classes['kept'] += 1
            e = ins[-1]
            ktag = e[3]
            srcs = _slot_sources(ktag)
            ok = len(srcs) == 1 and srcs[0][0] in operands and 'clone' in str(ktag).lower()
            it_req(E, props, 'FLOW', ok, nm + ':kept', 'every element of the result must be a clone of an element of the left operand', it)
            if not ok:
                return
            L, i = srcs[0][0], srcs[0][1]
            R = [m for m in operands if m != L][0]
            pr = _probe_of(E, st, seg, R)
            good = pr is not None and pr[0] == 'miss' and (pr[2] is None or (
                _is_key_of(pr[2], L) and z.entails_eq(pr[2][2], i)))
            it_req(E, props, 'POL', good, nm + ':kept',
                   'an element may enter the result only after it was looked up in the right operand and NOT found '
                   '(lookup seen: %r)' % (pr,), it)
            return
        # no insertion in this iteration: an element that was skipped must have been found in the right operand
        # (an iteration that took no element of an operand -- e.g. a step of the result's own insertion scan --
        # has skipped nothing)
        if not any(e[0] in ('adv', 'at') and e[1] in operands for e in seg):
            return
        for R in operands:
            pr = _probe_of(E, st, seg, R)
            if pr is not None:
                E.iter_classes['skipped'] += 1
                it_req(E, props, 'POL', pr[0] == 'hit', nm + ':skipped',
                       'an element of the left operand may be left out only when it was found in the right operand '
                       '(lookup seen: %r)' % (pr,), it)
                return
    return hook


def h_sub_result(ctx, p):
    nm = ctx.body.name
    ctx.classes['built'] += 1
    mid = map_in(p.E, p.val)
    ms = p.st.maps.get(mid) if mid else None
    ctx.req('FLOW', ms is not None and ms.len0 is None, nm, 'the result must be a set built inside the call', p)
    A = p.subjects_all[0][0] if p.subjects_all and p.subjects_all[0] else None
    ok = A is not None and any(e[0] == 'cursor-end' and e[1] == A for e in p.events)
    ctx.req('POL', ok, nm, 'the result may be returned only after every element of the left operand was examined', p)
    quiet = all(not [e for e in p.events if e[0] in ('read', 'write', 'len', 'store') and e[1] == m]
                for m, s2 in p.st.maps.items() if s2.borrowed and not s2.phantom)
    ctx.req('OUT', quiet, nm, 'the operands must not be modified', p)


def _pulled_next(e):
    return (e[0] == 'next' and e[-1] == 'Some') or (e[0] == 'user' and e[1].endswith('::Iterator::next')) \
        or (e[0] == 'opaque' and e[1].endswith('::Iterator>::next'))


def _item_of_next(e):
    if e[0] == 'next':
        if isinstance(e[1], tuple) and len(e[1]) == 2 and e[1][0] == 'opqit':
            return ('elem', e[1][1])        # an element of the (tracked) source array
        return ('item', e[1])
    return ('u' if e[0] == 'user' else 'c', e[1], e[2])


def _pulled_cb(e):
    return e[0] == 'cb-invoke'


def _item_of_cb(e):
    return ('cbarg',)


def cursor_fold_iteration(how):
    """fold of a borrowing (or draining) cursor iterator written by hand: per iteration the cursor advances over
    exactly one element, front to back, and the stated projection of that element goes to the closure once"""
    subs = {'pair': ((0,), (1,)), 'key': ((0,),), 'value': ((1,),),
            'owned-pair': ((0,), (1,)), 'owned-key': ((0,),)}[how]
    owned = how.startswith('owned')

    def mk(props):
        def hook(E, body, key, st, seg, depth=0):
            roles = _roles(E)
            advs = [e for e in seg if e[0] == 'adv' and e[1] in roles]
            if not roles or not advs:
                return
            it = Iteration(E, st, seg)
            nm = body.name
            z = st.zone
            E.iter_classes['folded'] += 1
            mid, idx = advs[0][1], advs[0][2]
            it_req(E, props, 'ONCE', len(advs) == 1, nm + ':fold', 'the cursor must advance over exactly one element per round', it)
            it_req(E, props, 'ORDER', not (len(advs[0]) > 3 and advs[0][3] == 'back'), nm + ':fold',
                   'fold must visit the elements in the order in which next() yields them (front to back)', it)
            calls = [e for e in seg if e[0] == 'user' and (e[1].endswith('::call_mut') or e[1].endswith('::call_once')
                                                          or e[1].endswith('::call') or e[1] == 'call')]
            ok = len(calls) == 1
            if ok and owned:
                reads = [e for e in seg if e[0] == 'read' and e[1] == mid]
                ok = len(reads) == 1 and all(E.tag_mentions(calls[0][2], reads[0][3][sub[0]]) for sub in subs)
            elif ok:
                ok = all(mentions_z(z, calls[0][2], ('slot', mid, idx, sub)) or mentions_z(z, calls[0][2], ('pair', mid, idx, sub))
                         for sub in subs)
            it_req(E, props, 'POL', ok, nm + ':fold',
                   'the element the cursor passed over (its %s) must be handed to the closure, exactly once' % how, it)
        return hook
    return mk


def pop_fold_iteration(props):
    """fold of a consuming (pop) iterator written by hand: per iteration exactly the last live element is moved
    out (len goes down by one) and handed to the closure, once"""
    def hook(E, body, key, st, seg, depth=0):
        reads = [e for e in seg if e[0] == 'read']
        calls = [e for e in seg if e[0] == 'user' and (e[1].endswith('::call_mut') or e[1].endswith('::call_once')
                                                      or e[1].endswith('::call') or e[1] == 'call')]
        if not reads and not calls:
            return
        it = Iteration(E, st, seg)
        nm = body.name
        E.iter_classes['folded'] += 1
        ok = len(reads) == 1
        if ok:
            mid, idx = reads[0][1], reads[0][2]
            ms = st.maps[mid]
            lens = [e for e in seg if e[0] == 'len' and e[1] == mid]
            ok = len(lens) == 1 and st.zone.entails_eq(idx, ms.len)
        it_req(E, props, 'ONCE', ok, nm + ':fold',
               'each round must move out exactly the last live element and decrease len by one (the order of next())', it)
        if not ok:
            return
        kt, vt = reads[0][3]
        good = len(calls) == 1 and (E.tag_mentions(calls[0][2], kt) or E.tag_mentions(calls[0][2], vt))
        it_req(E, props, 'POL', good, nm + ':fold', 'the element moved out must be handed to the closure, exactly once', it)
    return hook


def h_pop_fold(ctx, p):
    nm = ctx.body.name
    ctx.classes['folded-all'] += 1
    mid = map_in(p.E, p.self0)
    ms = p.st.maps.get(mid) if mid else None
    ctx.req('POL', ms is not None and (ms.dead or p.z.entails_eq(ms.len, 0)), nm,
            'fold may return only when no element is left in the iterator', p)



# ------------------------------------------------------------------------------ formatting: the listing clause (C19)
# What C19 says about WHICH entries are rendered is decided here (the text itself -- braces, separators, the
# alternate form -- is a run-time string and is not): Debug / Display hand to the formatter exactly the entries of
# the container (in iteration order), resp. exactly the entries the iterator has not yet yielded, each once, as the
# stated projection (pair / key / value), and leave the container and the iterator unchanged.
FMT_SUBS = {'pair': ((0,), (1,)), 'key': ((0,),), 'value': ((1,),)}


def _fmt_subject(E, st0, v):
    """(container, first, end) of what the receiver still has to show: the range of the cursor inside a
    borrowing / draining iterator, or the live prefix of the container (owned by a consuming iterator)"""
    d = 0
    while v is not None and v[0] == 'ref' and d < 4:
        try:
            v = E.load(st0, v[2], quiet=True)
        except Exception:
            return None
        d += 1
    if v is None:
        return None
    E.view_zone = st0.zone
    c = E.sliceits_in(v)
    ms_ = E.byvalue_maps(v)
    if len(c) == 1 and not ms_:
        return c[0][1], c[0][2], c[0][3]
    if len(ms_) == 1 and not c:
        ms = st0.maps[ms_[0]]
        return ms_[0], 0, ms.len
    return None


def _fmt_root_subject(E):
    ent = getattr(E, 'root_entry', None)
    if ent is None or not ent[0]:
        return None
    c = getattr(E, '_fmt_subj_cache', None)
    if c is not None and c[0] is ent[1]:
        return c[1]
    r = _fmt_subject(E, ent[1], ent[0][0])
    E._fmt_subj_cache = (ent[1], r)
    return r


def _fmt_args_of(seg):
    args_ = [e[1] for e in seg if e[0] == 'fmtarg']
    # (a direct call `Display::fmt(k, f)` / `k.fmt(f)` of the element's own formatting code)
    args_ += [e[2][0] for e in seg if e[0] == 'user' and isinstance(e[1], str) and e[1].startswith('core::fmt::')
              and e[1].endswith('::fmt') and isinstance(e[2], tuple) and e[2]]
    return args_


def _slot_mentions(t, acc=None, d=0):
    if acc is None:
        acc = []
    if isinstance(t, tuple) and d < 8:
        if len(t) == 4 and t[0] in ('slot', 'pair') and isinstance(t[1], str) and isinstance(t[3], (tuple, list)):
            acc.append((t[1], t[2], tuple(t[3])[:1]))
        else:
            for x in t:
                _slot_mentions(x, acc, d + 1)
    return acc


def _fmt_segment_ok(E, z, seg, subj, how, in_order):
    """one rendered entry's worth of log: everything handed to the formatter that is (part of) a stored element
    belongs to ONE slot of the subject range, and is exactly the stated projection(s) of it, once each -> (ok, why)"""
    mid, f0, b0 = subj
    ments = []
    for a in _fmt_args_of(seg):
        ments += _slot_mentions(a)[:1] if not (isinstance(a, tuple) and a and a[0] == 'tuple') else _slot_mentions(a)
    if not ments:
        return True, None          # nothing of a stored element in this round (punctuation only)
    if any(m[0] != mid for m in ments):
        return False, 'an element of another container is handed to the formatter'
    idx = ments[0][1]
    if not all(z.entails_eq(m[1], idx) for m in ments):
        return False, 'parts of different elements are rendered as one entry'
    if not (z.entails_le(f0, idx) and z.entails_lt(idx, b0)):
        return False, 'the rendered slot %s is not proved to lie inside the not-yet-yielded range [%s,%s)' % (idx, f0, b0)
    subs = FMT_SUBS[how]
    got = [m[2] for m in ments]
    for sub in ((0,), (1,)):
        if sub in subs and got.count(sub) != 1:
            return False, 'the %s of the entry must be handed to the formatter exactly once per entry (seen %d times)' % (
                'key' if sub == (0,) else 'value', got.count(sub))
        if sub not in subs and got.count(sub):
            return False, 'the %s of the entry is rendered where only its %s belongs' % ('key' if sub == (0,) else 'value', how)
    if [g for g in got if g not in ((0,), (1,))]:
        return False, 'a whole pair is handed to the formatter where its %s belongs' % how
    if how == 'pair' and got and got[0] != (0,):
        return False, 'the key must be rendered before the value'
    return True, None


def fmt_iteration(how, in_order):
    def mk(props):
        def hook(E, body, key, st, seg, depth=0):
            subj = _fmt_root_subject(E)
            if subj is None:
                return
            if not _fmt_args_of(seg):
                return
            it = Iteration(E, st, seg)
            E.iter_classes['rendered'] += 1
            ok, why = _fmt_segment_ok(E, st.zone, seg, subj, how, in_order)
            it_req(E, props, 'LISTING', ok, body.name + ':entry',
                   'what one round of the rendering loop hands to the formatter must be the %s of one element of the '
                   'range still to be shown (%s)' % (how, why), it)
        return hook
    return mk


def h_fmt_listing(how, in_order):
    def h(ctx, p):
        nm = ctx.body.name
        E, z, st = p.E, p.z, p.st
        ent = getattr(E, 'root_entry', None)
        subj = _fmt_subject(E, ent[1], p.args0[0]) if (p.args0 and ent) else None
        if subj is None:
            ctx.req('LISTING', False, nm, 'cannot find what the receiver still has to show (one cursor or one container)', p)
            return
        mid, f0, b0 = subj
        ms = st.maps[mid]
        # a formatter error ends the rendering early: only complete renderings are judged for completeness
        early = [e for e in p.events if e[0] == 'errprop'] or \
            (isinstance(p.val, tuple) and p.val and p.val[0] == 'adt' and p.val[1] == RESULT and p.val[2] == 1)
        ctx.classes['rendered-all' if not early else 'error'] += 1
        quiet = not [e for e in p.events if e[0] in ('read', 'write', 'len', 'store') and e[1] == mid] \
            and not ms.contents and not ms.holes and not ms.extras
        ctx.req('LISTING', quiet, nm, 'formatting must not change the container', p)
        shared = bool(p.args0) and p.args0[0][0] == 'ref' and not p.args0[0][1]
        if not shared:
            v1 = final_self(p)
            ctx.req('LISTING', val_eq_z(z, v1, p.self0), nm, 'formatting must not advance or change the iterator itself', p)
        # the part of the log in front of the first loop (an element rendered before the loop, as Display does)
        first = next((i for i, e in enumerate(p.events) if e[0] == 'loop'), len(p.events))
        head = p.events[:first]
        if _fmt_args_of(head):
            ok, why = _fmt_segment_ok(E, z, head, subj, how, in_order)
            ctx.req('LISTING', ok, nm + ':first', 'what is handed to the formatter in front of the loop must be the %s of '
                    'one element of the range still to be shown (%s)' % (how, why), p)
        if early:
            return
        g0, g1 = st.ghost.get(('span0', mid)), st.ghost.get(('span1', mid))
        bad = ('spanbad', mid) in st.ghost
        down = ('spandown', mid) in st.ghost
        seen = 'none' if g1 is None or g0 is None else '[%s,%s)%s' % (g0[0], g1[0], ' (not one contiguous run)' if bad else '')
        if z.entails_le(b0, f0):
            ok = g1 is None and not bad
        else:
            ok = g0 is not None and g1 is not None and not bad and z.entails_eq(g0[0], f0) and z.entails_eq(g1[0], b0)
        ctx.req('LISTING', ok, nm, 'exactly the entries still to be shown, slots [%s,%s), must be rendered (slots whose '
                'element reached the formatter: %s)' % (f0, b0, seen), p)
        if in_order:
            ctx.req('LISTING', not down, nm, 'the entries of a Map / Set must be rendered in iteration order (front to back)', p)
        if g1 is None or not ok:
            return
        ln = st.ghost.get(('spanlen', mid))
        for sub in ((0,), (1,)):
            n = st.ghost.get(('fmtn', mid, sub))
            if sub in FMT_SUBS[how]:
                good = n is not None and ln is not None and z.entails_eq(n[0], ln[0])
                ctx.req('LISTING', good, nm, 'the %s of every entry must be rendered exactly once (rendered %s times for %s entries)'
                        % ('key' if sub == (0,) else 'value', n[0] if n else 0, ln[0] if ln else 0), p)
            else:
                ctx.req('LISTING', n is None, nm, 'the %s of the entries must not be rendered here' % ('key' if sub == (0,) else 'value'), p)
    return h


def val_eq_z(z, a, b, d=0):
    """structural equality of two abstract values, position terms compared in the zone"""
    if a is b or a == b:
        return True
    if d > 48:
        return False
    if isinstance(a, Term) or isinstance(b, Term):
        try:
            return bool(z.entails_eq(a, b))
        except Exception:
            return False
    if isinstance(a, tuple) and isinstance(b, tuple) and len(a) == len(b):
        return all(val_eq_z(z, x, y, d + 1) for x, y in zip(a, b))
    return False


def h_fmt_via_clone(ctx, p):
    """Debug of a lazy set-algebra iterator: renders what a faithful copy of itself yields -- the copy handed to
    entries() must equal the receiver (same cursors, same operands); what such an iterator yields is C08's"""
    nm = ctx.body.name
    ctx.classes['rendered-clone'] += 1
    over = [e[1] for e in p.events if e[0] == 'entries-over']
    nexts = [e for e in p.events if e[0] == 'own-next']
    if not over and nexts:
        # the loop form: `for item in self.clone() { list.entry(&item) }` -- the copy stepped through must be a
        # faithful one, stepped to its end, and nothing may be rendered behind the end (what each step renders is
        # judged per iteration, below)
        ys = [i for i, e in enumerate(p.events) if e[0] == 'own-yield']
        ended = bool(ys) and p.events[ys[-1]][2] is None and not any(e[0] == 'fmtarg' for e in p.events[ys[-1]:])
        cut = any(e[0] == 'errprop' for e in p.events)
        firsts = [n for n in p.st.notes if n[0] == 'own-first']
        faithful = len(firsts) == 1 and firsts[0][2] is True and all(e[1] == firsts[0][1] for e in nexts)
        ok = faithful and (ended or cut)
        ctx.req('LISTING', ok, nm, 'the entries rendered must be those a faithful copy of the iterator yields: the loop '
                'must step ONE copy that equals the receiver (faithful: %s) through its own next() to the end (ended: %s)'
                % (faithful, ended), p)
        gy, gf = p.st.ghost.get(('ownyield',)), p.st.ghost.get(('ownfmt',))
        ny, nf = (gy[0] if gy else 0), (gf[0] if gf else 0)
        ctx.req('LISTING', cut or (p.z.entails_eq(ny, nf) if not (isinstance(ny, int) and isinstance(nf, int)) else ny == nf),
                nm, 'as many items must be rendered as the stepped copy yielded (yielded %s, rendered %s)' % (ny, nf), p)
    else:
        ok = len(over) == 1 and over[0] is True
        ctx.req('LISTING', ok, nm, 'the entries rendered must be those a faithful copy of the iterator yields: the value handed '
                'to entries() must equal the receiver (equal: %s)' % (over,), p)
    v1 = final_self(p)
    shared = bool(p.args0) and p.args0[0][0] == 'ref' and not p.args0[0][1]
    # (through `&self` the borrow checker already rules a change out)
    ctx.req('LISTING', shared or val_eq_z(p.z, v1, p.self0), nm, 'formatting must not advance or change the iterator itself', p)


def h_iter_clone_from(ctx, p):
    """clone_from of a borrowing iterator: afterwards the receiver stands exactly where the source stands"""
    ctx.classes['made'] += 1
    v1 = final_self(p)
    src = p.args0[1] if len(p.args0) > 1 else None
    d = 0
    while src is not None and src[0] == 'ref' and d < 4:
        try:
            src = p.E.load(p.st, src[2], quiet=True)
        except Exception:
            src = None
        d += 1
    ok = v1 is not None and src is not None and val_eq_z(p.z, v1, src)
    ctx.req('OUT', ok, 'clone_from', 'after clone_from the iterator must continue exactly where the source stands '
            '(receiver %s, source %s)' % (str(v1)[:160], str(src)[:160]), p)


def h_algebra_clone(ctx, p):
    """Clone of a lazy set-algebra iterator: the copy equals the original (same operands, same cursors), so it
    yields exactly what the original still would; the original stays as it is"""
    ctx.classes['made'] += 1
    ok = p.val is not None and p.self0 is not None and val_eq_z(p.z, p.val, p.self0)
    ctx.req('OUT', ok, 'clone', 'a cloned lazy set iterator must equal its original: same operands, same cursors '
            '(copy %s, original %s)' % (str(p.val)[:200], str(p.self0)[:200]), p)
    ctx.req('OUT', val_eq_z(p.z, final_self(p), p.self0), 'clone', 'cloning must not advance or change the original', p)


def fmt_clone_iteration(props):
    """Debug of a lazy iterator written as a loop over a copy of itself: a round that steps the copy renders exactly
    the item that step yielded, once; a round renders nothing else"""
    def hook(E, body, key, st, seg, depth=0):
        ys = [e for e in seg if e[0] == 'own-yield']
        fm = [e for e in seg if e[0] == 'fmtarg']
        if not ys and not fm:
            return
        if any(e[0] == 'entries-over' for e in st.events):
            return      # entries(copy): core renders exactly what the copy yields; judged by the path schema
        E.iter_classes['rendered'] += 1
        it = Iteration(E, st, seg)
        some = [e for e in ys if e[2] is not None]
        ok = len(ys) == 1 and len(some) == 1 and len(fm) == 1 and tag_eq(st.zone, fm[0][1], some[0][2])
        it_req(E, props, 'LISTING', ok, body.name + ':entry',
               'one round of the rendering loop must hand exactly the item its step of the copy yielded to the formatter, '
               'once (yielded: %s, rendered: %s)' % ([e[2] for e in ys], [e[1] for e in fm]), it)
    return hook


# get_disjoint: every answer written into the result array is the value of a slot whose key matched that request
AGREE_TRACK = {
    (MAP, None, 'get_disjoint_mut'): {'C13'},
    (MAP, None, 'get_disjoint_unchecked_mut'): {'C13', 'C18'},
}

# fold roots of single-cursor iterators: advances and closure calls are counted in the state
ADV_TRACK = set()
# nth of the consuming (pop) iterators: pops (len going down by one) are counted in the state
POP_TRACK = set()


def h_pop_nth(how):
    """nth(n) of a consuming iterator that pops from the back: Some(x) -- exactly n + 1 elements were popped and x
    is the stated projection of the one popped last; None -- nothing is left and at most n were popped.  (That
    every popped element is destroyed or handed out exactly once is the business of the safety rules.)"""
    def h(ctx, p):
        nm = ctx.body.name
        mid = map_in(p.E, p.self0)
        if mid is None:
            ctx.req('OUT', False, nm, 'cannot find the owned container inside the iterator', p)
            return
        ms = p.st.maps[mid]
        z = p.z
        n = p.args0[1][1] if len(p.args0) > 1 and p.args0[1][0] == 'int' else None
        g = p.st.ghost.get(('pop', mid))
        popped = g[0] if g else 0
        reads = [e for e in p.events if e[0] == 'read' and e[1] == mid]
        if is_none(p.val):
            ctx.classes['none'] += 1
            ctx.req('OUT', z.entails_eq(ms.len, 0), nm + ':none', 'None may be returned only when nothing is left', p)
            ctx.req('ONCE', n is not None and z.entails_le(popped, n), nm + ':none',
                    'None may be returned only when fewer than n + 1 elements were there (popped: %s)' % (popped,), p)
            return
        ctx.classes['some'] += 1
        item = some_of(p.val)
        ok = bool(reads) and z.entails_eq(reads[-1][2], ms.len) and item is not None and proj_ok(p, item, mid, reads[-1][2], how)
        ctx.req('OUT', ok, nm + ':some', 'the item must be the stated projection of the element popped last', p)
        ctx.req('ONCE', n is not None and z.entails_eq(popped, n, 1), nm + ':some',
                'exactly n + 1 elements must have been popped (n skipped, one yielded; popped: %s)' % (popped,), p)
    return h


# roots in which the user callable must be called at most once per stored element (tracked by the interpreter:
# MapState.asked, rule ASKED-ONCE)
ASKED_ONCE = {
    (MAP, None, 'retain'): {'C01'},
    (SET, None, 'retain'): {'C07'},
}


def _pulled_any(e):
    return _pulled_next(e) or _pulled_cb(e)


def _item_of_any(e):
    return _item_of_cb(e) if _pulled_cb(e) else _item_of_next(e)


ITER_HOOKS = {
    (MAP, None, 'retain'): ({'C01'}, retain_iteration, {'predicate', 'kept', 'removed'}),
    (SET, None, 'retain'): ({'C07'}, retain_iteration, {'predicate', 'kept', 'removed'}),
    (MAP, 'FromIterator', 'from_iter'): ({'C16', 'C12'}, lambda pr: bulk_iteration(pr, _pulled_any, _item_of_any), {'item', 'hit', 'append'}),
    (SET, 'FromIterator', 'from_iter'): ({'C16', 'C12'}, lambda pr: bulk_iteration(pr, _pulled_any, _item_of_any), {'item', 'hit', 'append'}),
    (MAP, 'From', 'from'): ({'C16', 'C12'}, lambda pr: bulk_iteration(pr, _pulled_any, _item_of_any), {'item', 'hit', 'append'}),
    (SET, 'From', 'from'): ({'C16', 'C12'}, lambda pr: bulk_iteration(pr, _pulled_any, _item_of_any), {'item', 'hit', 'append'}),
    (MAP, 'Clone', 'clone'): ({'C15'}, clone_iteration, {'element'}),
    (SET, 'Clone', 'clone'): ({'C15'}, clone_iteration, {'element'}),
    (MAP, 'Clone', 'clone_from'): ({'C15'}, clone_iteration, {'element'}),
    (SET, 'Clone', 'clone_from'): ({'C15'}, clone_iteration, {'element'}),
    (MAP, 'PartialEq', 'eq'): ({'C14'}, quantifier_iteration('eq'), {'continued'}),
    (SET, 'PartialEq', 'eq'): ({'C14'}, quantifier_iteration('seteq'), {'continued'}),
    (SET, None, 'is_subset'): ({'C08'}, quantifier_iteration('subset'), {'continued'}),
    (SET, None, 'is_superset'): ({'C08'}, quantifier_iteration('subset'), {'continued'}),
    (SET, None, 'is_disjoint'): ({'C08'}, quantifier_iteration('disjoint'), {'continued'}),
    (DIFF, 'Iterator', 'next'): ({'C08'}, filter_iteration('diff', False), set()),
    (DIFFREF, 'Iterator', 'next'): ({'C08'}, filter_iteration('diff', False), set()),
    (INTER, 'Iterator', 'next'): ({'C08'}, filter_iteration('inter', False), set()),
    (DIFF, 'Iterator', 'fold'): ({'C08'}, merge_iteration('fold'), {'folded', 'dropped'}),
    (DIFFREF, 'Iterator', 'fold'): ({'C08'}, merge_iteration('fold'), {'folded', 'dropped'}),
    (INTER, 'Iterator', 'fold'): ({'C08'}, merge_iteration('fold'), {'folded', 'dropped'}),
    (UNION, 'Iterator', 'next'): ({'C08'}, merge_iteration('next'), {'skipped'}),
    (SYMDIFF, 'Iterator', 'next'): ({'C08'}, merge_iteration('next'), {'skipped'}),
    (UNION, 'Iterator', 'fold'): ({'C08'}, merge_iteration('fold'), {'folded', 'dropped'}),
    (SYMDIFF, 'Iterator', 'fold'): ({'C08'}, merge_iteration('fold'), {'folded', 'dropped'}),
    (UNION, 'Iterator', 'count'): ({'C08'}, merge_iteration('count'), {'counted', 'skipped'}),
    (SYMDIFF, 'Iterator', 'count'): ({'C08'}, merge_iteration('count'), {'counted', 'skipped'}),
    (DIFF, 'Iterator', 'count'): ({'C08'}, merge_iteration('count'), {'counted', 'skipped'}),
    (DIFFREF, 'Iterator', 'count'): ({'C08'}, merge_iteration('count'), {'counted', 'skipped'}),
    (INTER, 'Iterator', 'count'): ({'C08'}, merge_iteration('count'), {'counted', 'skipped'}),
    (MAP, 'Serialize', 'serialize'): ({'C20'}, serialize_iteration('serialize_entry', 2), {'entry'}),
    (SET, 'Serialize', 'serialize'): ({'C20'}, serialize_iteration('serialize_element', 1), {'entry'}),
    ('serialization::Vi', 'Visitor', 'visit_map'): ({'C20', 'C12'}, lambda pr: bulk_iteration(pr, _pulled_access('next_entry'), _item_of_access), {'item', 'hit', 'append'}),
    ('set::serialization::Vi', 'Visitor', 'visit_seq'): ({'C20', 'C12'}, lambda pr: bulk_iteration(pr, _pulled_access('next_element'), _item_of_access), {'item', 'hit', 'append'}),
    (MAP, None, 'get_disjoint_mut'): ({'C13'}, precheck_iteration, {'compared'}),
    ('&set::Set', 'Sub', 'sub'): ({'C08'}, sub_iteration, {'kept', 'skipped'}),
    (SET, 'Extend', 'extend'): ({'C16', 'C07', 'C12'}, lambda pr: bulk_iteration(pr, _pulled_any, _item_of_any), {'item', 'hit', 'append'}),
}


def iteration_hook_for(E, body):
    k = root_key(body)
    h = ITER_HOOKS.get(k)
    if h is None:
        return None
    props, mk, _ = h
    fn = mk(set(props))
    return lambda key, st, seg, depth=0: fn(E, body, key, st, seg, depth)


def h_bulk_extend(ctx, p):
    """Extend: the whole source is consumed, front to back, by a plain driver"""
    nm = ctx.body.name
    ctx.classes['extended'] += 1
    okc, bad = bulk_source_ok(p.E, ctx.body, p.events)
    ctx.req('FLOW', okc, nm, 'the whole source must be consumed front to back: no adaptor or call that could drop, skip '
            'or reorder items may stand between the source and the loop (offending call: %s)' % (bad[1] if bad else None), p)
    drivers = [e for e in p.user if any(e[1].endswith(x) for x in DRIVERS)]
    ctx.req('ONCE', bool(drivers), nm, 'the source must actually be consumed', p)


def h_bulk_result(ctx, p):
    """from_iter / From<[_; N]>: the result is a container created empty inside the call; the source was
    turned into an iterator exactly once"""
    nm = ctx.body.name
    ctx.classes['built'] += 1
    mid = map_in(p.E, p.val)
    ms = p.st.maps.get(mid) if mid else None
    ctx.req('FLOW', ms is not None and ms.len0 is None, nm, 'the result must be a container built from new() inside the call', p)
    n = len([e for e in p.user if e[1].endswith('IntoIterator::into_iter')])
    ctx.req('ONCE', n <= 1, nm, 'the source must be turned into an iterator at most once (single forward pass)', p)
    okc, bad = bulk_source_ok(p.E, ctx.body, p.events)
    ctx.req('FLOW', okc, nm, 'the whole source must be consumed front to back: no adaptor or call that could drop, skip '
            'or reorder items may stand between the source and the loop (offending call: %s)' % (bad[1] if bad else None), p)
    ctx.req('FLOW', _source_exhausted(p), nm,
            'the result may be returned only when the source has nothing left: its last answer was None, or (an array) '
            'all N elements were pulled', p)


def _source_exhausted(p):
    """the last pull on the path answered None, or every element of the source array was pulled (ghost counter)"""
    z = p.z
    for k, g in p.st.ghost.items():
        if isinstance(k, tuple) and k and k[0] == 'pull':
            # a tracked array source: pulled == N ?
            n = _array_len_of(p, k[1])
            if n is not None and z.entails_eq(g[0], n):
                return True
    last = None
    for e in p.events:
        if e[0] == 'next' and e[-1] in ('Some', 'None'):
            last = e[-1]
        elif e[0] == 'variant' and isinstance(e[1], tuple) and len(e[1]) > 1 and isinstance(e[1][1], str) \
                and (e[1][1].endswith('::next') or e[1][1].endswith('::next_entry') or e[1][1].endswith('::next_element')
                     or e[1][1].endswith('::next_key')):
            last = 'None' if e[2] == 0 else 'Some'
        elif e[0] == 'cb-exit':
            last = 'None'
    if last == 'None':
        return True
    # a source that is consumed by handing a closure to it (for_each / fold on a user iterator) ends when it says so
    if any(e[0] == 'cb-invoke' for e in p.events) or any(e[0] == 'user' and any(e[1].endswith(x) for x in
                                                         ('Iterator::for_each', 'Iterator::fold', 'Iterator::try_for_each'))
                                                         for e in p.events):
        return True
    # nothing was ever pulled on this path and nothing is known: an empty array source
    for t in arg_tags(p.body).values():
        n = _array_len_of(p, t)
        if n is not None and z.entails_eq(n, 0):
            return True
    return False


def _array_len_of(p, tag):
    """length term of the source array with provenance `tag` (from the entry values of the root)"""
    for a in (p.args0 or ()):
        if isinstance(a, tuple) and a and a[0] == 'oarr' and a[1] == tag:
            return a[2]
    return None


# ------------------------------------------------------------------------------ len / is_empty / capacity / constructors
def h_len(ctx, p):
    ctx.classes['observed'] += 1
    v = p.val
    ctx.req('FLOW', v[0] == 'int' and p.ms is not None and p.z.entails_eq(v[1], p.ms.len0) and p.untouched(), ctx.body.name,
            'len() must report the number of live entries (the len field) and change nothing', p)


def h_capacity(ctx, p):
    ctx.classes['observed'] += 1
    v = p.val
    ctx.req('FLOW', v[0] == 'int' and p.ms is not None and p.z.entails_eq(v[1], p.ms.cap) and p.untouched(), ctx.body.name,
            'capacity() must be the const parameter N', p)


def h_is_empty(ctx, p):
    ctx.classes['observed'] += 1
    E, st, v = p.E, p.st, p.val
    ok = p.ms is not None and p.untouched()
    if ok:
        a = st.fork()
        a.zone.add_eq(p.ms.len0, 0)
        b = st.fork()
        b.zone.add_lt(0, p.ms.len0)

        def truth(s2):
            if v[0] == 'bool':
                return v[1]
            if v[0] == 'boolc':
                return E.decide(s2, v[1])
            return None
        ok = truth(a) is True and truth(b) is False
    ctx.req('POL', ok, ctx.body.name, 'is_empty() must be true exactly when len() == 0', p)


def h_new(ctx, p):
    ctx.classes['made'] += 1
    mid = map_in(p.E, p.val)
    ms = p.st.maps.get(mid) if mid else None
    ok = ms is not None and ms.len0 is None and p.z.entails_eq(ms.len, 0) and not ms.extras and slots.empty(p.z, ms.extra_rng)
    ctx.req('OUT', ok, ctx.body.name, 'a new container must be empty (len == 0, no live slot)', p)


def h_with_capacity(ctx, p):
    h_new(ctx, p)
    t = Term('$arg.' + (ctx.body.locals[1].get('name') or 'arg1'))
    cap = [ms.cap for ms in p.st.maps.values()]
    ok = bool(cap) and p.z.entails_eq(t, cap[0])
    ctx.req('CAP', ok, ctx.body.name, 'with_capacity(c) may return only when c == N', p, props={'C03'})


def _mk(fn, *a):
    return lambda ctx, p: fn(ctx, p, *a)


HANDLERS = {}
for _k, (_props, _kk, _vv, _keep, _abs, _pres, _ref) in INSERTIONS.items():
    HANDLERS[_k] = (_props, _mk(insertion, _kk, _vv, _keep, _abs, _pres, _ref))
for _k, (_props, _kk, _f, _m) in REMOVALS.items():
    HANDLERS[_k] = (_props, _mk(removal, _kk, _f, _m))
for _k, (_props, _kk, _f, _m) in LOOKUPS.items():
    HANDLERS[_k] = (_props, _mk(lookup, _kk, _f, _m))
HANDLERS.update({
    (MAP, None, 'entry'): ({'C11'}, h_entry),
    (ENT, None, 'or_insert'): ({'C11', 'C12'}, h_or_insert('value')),
    (ENT, None, 'or_insert_with'): ({'C11', 'C12'}, h_or_insert('with')),
    (ENT, None, 'or_insert_with_key'): ({'C11', 'C12'}, h_or_insert('with_key')),
    (ENT, None, 'or_default'): ({'C11', 'C12'}, h_or_insert('default')),
    (ENT, None, 'and_modify'): ({'C11'}, h_and_modify),
    (ENT, None, 'key'): ({'C11'}, h_entry_key),
    (OCC, None, 'key'): ({'C11', 'C12'}, h_occ('key')),
    (OCC, None, 'get'): ({'C11'}, h_occ('get')),
    (OCC, None, 'get_mut'): ({'C11'}, h_occ('get_mut')),
    (OCC, None, 'into_mut'): ({'C11'}, h_occ('into_mut')),
    (OCC, None, 'insert'): ({'C11', 'C12'}, h_occ('insert')),
    (OCC, None, 'remove'): ({'C11'}, h_occ('remove')),
    (OCC, None, 'remove_entry'): ({'C11', 'C12'}, h_occ('remove_entry')),
    (VAC, None, 'insert'): ({'C11', 'C12'}, h_vac_insert),
    (VAC, None, 'into_key'): ({'C11', 'C12'}, h_vac_into_key),
    (VAC, None, 'key'): ({'C11'}, h_vac_key),
})


CLASSES = {}    # explicit required path classes per root key (consulted before the inference below)


def required_classes(key):
    if key in CLASSES:
        return CLASSES[key]
    if key[0] in (UNION, SYMDIFF) and key in HANDLERS:
        return {'next': {'none', 'some'}, 'size_hint': {'hint'}, 'count': {'hint'}, 'fold': {'folded-all'}}[key[2]]
    if key[0] in (DIFF, DIFFREF, INTER) and key[2] in ('size_hint', 'count'):
        return {'hint'}
    if key[0] in (DIFF, DIFFREF, INTER) and key[2] == 'fold':
        return {'folded-all'}
    if key in INSERTIONS:
        return {'hit', 'append', 'append@last-slot'} | ({'neither'} if INSERTIONS[key][6] is not None else set())
    if key in REMOVALS:
        return {'hit', 'miss'}
    if key in LOOKUPS:
        return {'hit', 'miss'} if LOOKUPS[key][3] is not None else {'hit'}
    if key == (MAP, None, 'entry'):
        # 'miss-any-fill': some path returns Vacant without its path condition excluding a full map
        # (entry() itself must not fail for want of space; only the later insert may)
        return {'hit', 'miss', 'miss-any-fill'}
    if key[0] == ENT:
        return {'occupied', 'vacant'}
    if key[0] == OCC:
        return {'occupied'}
    if key == (VAC, None, 'insert'):
        return {'append'}
    if key[2] == 'next' and key[1] == 'Iterator' and key in HANDLERS:
        return {'none', 'some'}
    if key[2] in ('size_hint', 'len', 'count') and key in HANDLERS:
        return {'hint'}
    if key[2] == 'clone' and key[0] in (MAP, SET):
        return {'cloned'}
    if key in HANDLERS and key[2] in ('iter', 'iter_mut', 'keys', 'values', 'values_mut', 'drain', 'into_iter',
                                      'into_keys', 'into_values', 'clone', 'difference', 'difference_ref',
                                      'intersection', 'union', 'symmetric_difference'):
        return {'made'}
    if key[2] == 'clear':
        return {'cleared'}
    if key[2] in ('len', 'is_empty', 'capacity') and key[0] in (MAP, SET):
        return {'observed'}
    if key[2] in ('new', 'default', 'with_capacity') and key[0] in (MAP, SET):
        return {'made'}
    if key[2] == 'get_disjoint_mut':
        # 'empty-request-ok': an empty request array must be answered (with an empty array) whatever the map holds
        return {'access', 'no-access', 'empty-request-ok'}
    if key[2] in ('serialize', 'visit_map', 'visit_seq') and key in HANDLERS:
        return {'done', 'error'}
    if key[2] == 'deserialize' and key in HANDLERS:
        return {'done'}
    if key[2] in ('eq', 'is_subset', 'is_superset', 'is_disjoint') and key in HANDLERS:
        return {'true', 'false'}
    if key[2] == 'clone' and key[0] in (MAP, SET):
        return {'cloned'}
    if key[2] in ('from_iter', 'from') and key in HANDLERS:
        return {'built'}
    return set()


ITER_TRAITS = ('Iterator', 'DoubleEndedIterator', 'ExactSizeIterator')
OVERRIDE_PROPS = {
    ITER: 'C09', ITERMUT: 'C09', KEYS: 'C09', VALUES: 'C09', VALUESMUT: 'C09', SETITER: 'C09',
    INTOITER: 'C10', INTOKEYS: 'C10', INTOVALUES: 'C10', DRAIN: 'C10', SETINTOITER: 'C10', SETDRAIN: 'C10',
    DIFF: 'C08', DIFFREF: 'C08', INTER: 'C08', UNION: 'C08', SYMDIFF: 'C08',
}


def unknown_override(body):
    """an Iterator-family method of one of the crate's iterators for which no schema exists: -> property"""
    k = root_key(body)
    if k[1] in ITER_TRAITS and k[0] in OVERRIDE_PROPS and k not in HANDLERS and k not in ITER_HOOKS:
        return OVERRIDE_PROPS[k[0]]
    if k[0] in (MAP, SET) and k[1] == 'PartialEq' and k[2] != 'eq':
        return 'C14'       # a hand-written `ne`: its agreement with `!eq` is not established
    if k[0] in (MAP, SET) and k[1] == 'Clone' and k[2] != 'clone' and k not in HANDLERS:
        return 'C15'       # a hand-written Clone method other than clone / clone_from
    if k[0] in (MAP, SET) and k[1] in ('Serialize', 'Deserialize') and (k[1], k[2]) not in (
            ('Serialize', 'serialize'), ('Deserialize', 'deserialize')):
        return 'C20'       # e.g. a hand-written `deserialize_in_place`
    return None


def props_of_root(body):
    k = root_key(body)
    h = HANDLERS.get(k)
    out = set(h[0]) if h else set()
    if k in ITER_HOOKS:
        out |= set(ITER_HOOKS[k][0])
    u = unknown_override(body)
    if u:
        out.add(u)
    if k in INSIDE_ROOTS or k == (ENT, None, 'key'):
        out.add('C06')
    return out


# schemas for methods that the pinned tree does not define (overrides a maintainer may add: count on the lazy set
# iterators, ...): applied when such a root exists, not required to exist
OPTIONAL = set()


def anchors(pid):
    """root keys whose schema serves property pid"""
    ks = {k for k, (props, _) in HANDLERS.items() if pid in props} | {k for k, v in ITER_HOOKS.items() if pid in v[0]}
    if pid == 'C06':
        ks |= INSIDE_ROOTS | {(ENT, None, 'key')}
    return sorted(ks - OPTIONAL, key=lambda k: tuple(str(x) for x in k))


IT = 'Iterator'
ESI = 'ExactSizeIterator'
for _path, _how in ((ITER, 'pair'), (ITERMUT, 'pair'), (KEYS, 'key'), (VALUES, 'value'), (VALUESMUT, 'value'),
                    (SETITER, 'key')):
    HANDLERS[(_path, IT, 'next')] = ({'C09'}, h_cursor_next(_how))
    HANDLERS[(_path, IT, 'size_hint')] = ({'C09'}, h_cursor_count('size_hint'))
    HANDLERS[(_path, ESI, 'len')] = ({'C09'}, h_cursor_count('len'))
for _path in (ITER, ITERMUT):
    HANDLERS[(_path, IT, 'count')] = ({'C09'}, h_cursor_count('count'))
for _path in (KEYS, VALUES, VALUESMUT, SETITER):
    HANDLERS[(_path, IT, 'count')] = ({'C09'}, h_cursor_count('count'))
    OPTIONAL.add((_path, IT, 'count'))
for _path in (DIFF, DIFFREF, INTER, SYMDIFF):
    OPTIONAL.add((_path, 'Iterator', 'count'))
for _path, _how in ((ITER, 'pair'), (ITERMUT, 'pair'), (KEYS, 'key'), (VALUES, 'value'), (VALUESMUT, 'value'),
                    (SETITER, 'key')):
    HANDLERS[(_path, IT, 'fold')] = ({'C09'}, h_merge_fold)
    ITER_HOOKS[(_path, IT, 'fold')] = ({'C09'}, cursor_fold_iteration(_how), {'folded'})
    CLASSES[(_path, IT, 'fold')] = {'folded-all'}
    OPTIONAL.add((_path, IT, 'fold'))
    ADV_TRACK.add((_path, IT, 'fold'))
for _path, _how in ((ITER, 'pair'), (ITERMUT, 'pair'), (KEYS, 'key'), (VALUES, 'value'), (VALUESMUT, 'value'),
                    (SETITER, 'key')):
    HANDLERS[(_path, IT, 'nth')] = ({'C09'}, h_cursor_nth(_how))
    HANDLERS[(_path, IT, 'last')] = ({'C09'}, h_cursor_last(_how))
    for _m in ('nth', 'last'):
        OPTIONAL.add((_path, IT, _m))
        CLASSES[(_path, IT, _m)] = {'none', 'some'}
    ADV_TRACK.add((_path, IT, 'nth'))
for _path in (ITER, KEYS, VALUES, SETITER):
    HANDLERS[(_path, 'Clone', 'clone')] = ({'C09'}, h_iter_clone)
    HANDLERS[(_path, 'Clone', 'clone_from')] = ({'C09'}, h_iter_clone_from)
    OPTIONAL.add((_path, 'Clone', 'clone_from'))
    CLASSES[(_path, 'Clone', 'clone_from')] = {'made'}
for _path, _how in ((DRAIN, 'owned-pair'), (SETDRAIN, 'owned-key')):
    HANDLERS[(_path, IT, 'next')] = ({'C10'}, h_cursor_next(_how))
    HANDLERS[(_path, IT, 'size_hint')] = ({'C10'}, h_cursor_count('size_hint'))
    HANDLERS[(_path, ESI, 'len')] = ({'C10'}, h_cursor_count('len'))
for _path, _how in ((INTOITER, 'owned-pair'), (INTOKEYS, 'owned-key'), (INTOVALUES, 'owned-value'),
                    (SETINTOITER, 'owned-key')):
    HANDLERS[(_path, IT, 'next')] = ({'C10'}, h_pop_next(_how))
    HANDLERS[(_path, IT, 'size_hint')] = ({'C10'}, h_pop_count('size_hint'))
    HANDLERS[(_path, ESI, 'len')] = ({'C10'}, h_pop_count('len'))
HANDLERS[(INTOITER, IT, 'count')] = ({'C10'}, h_pop_count('count'))
for _path, _how in ((DRAIN, 'owned-pair'), (SETDRAIN, 'owned-key')):
    HANDLERS[(_path, IT, 'fold')] = ({'C10'}, h_merge_fold)
    ITER_HOOKS[(_path, IT, 'fold')] = ({'C10'}, cursor_fold_iteration(_how), {'folded'})
    CLASSES[(_path, IT, 'fold')] = {'folded-all'}
    OPTIONAL.add((_path, IT, 'fold'))
    ADV_TRACK.add((_path, IT, 'fold'))
    HANDLERS[(_path, IT, 'count')] = ({'C10'}, h_cursor_count('count'))
    OPTIONAL.add((_path, IT, 'count'))
for _path, _how in ((DRAIN, 'owned-pair'), (SETDRAIN, 'owned-key')):
    HANDLERS[(_path, IT, 'nth')] = ({'C10'}, h_cursor_nth(_how))
    OPTIONAL.add((_path, IT, 'nth'))
    CLASSES[(_path, IT, 'nth')] = {'none', 'some'}
    ADV_TRACK.add((_path, IT, 'nth'))
for _path in (INTOKEYS, INTOVALUES, SETINTOITER):
    HANDLERS[(_path, IT, 'count')] = ({'C10'}, h_pop_count('count'))
    OPTIONAL.add((_path, IT, 'count'))
for _path, _how in ((INTOITER, 'owned-pair'), (INTOKEYS, 'owned-key'), (INTOVALUES, 'owned-value'),
                    (SETINTOITER, 'owned-key')):
    HANDLERS[(_path, IT, 'nth')] = ({'C10'}, h_pop_nth(_how))
    OPTIONAL.add((_path, IT, 'nth'))
    CLASSES[(_path, IT, 'nth')] = {'none', 'some'}
    POP_TRACK.add((_path, IT, 'nth'))
for _path in (INTOITER, INTOKEYS, INTOVALUES, SETINTOITER):
    HANDLERS[(_path, IT, 'fold')] = ({'C10'}, h_pop_fold)
    ITER_HOOKS[(_path, IT, 'fold')] = ({'C10'}, pop_fold_iteration, {'folded'})
    OPTIONAL.add((_path, IT, 'fold'))
    CLASSES[(_path, IT, 'fold')] = {'folded-all'}
HANDLERS.update({
    (MAP, None, 'iter'): ({'C09', 'C05'}, h_make_cursor('iter')),
    (MAP, None, 'iter_mut'): ({'C09', 'C05'}, h_make_cursor('iter')),
    (MAP, None, 'keys'): ({'C09'}, h_make_cursor('iter')),
    (MAP, None, 'values'): ({'C09'}, h_make_cursor('iter')),
    (MAP, None, 'values_mut'): ({'C09'}, h_make_cursor('iter')),
    (SET, None, 'iter'): ({'C09', 'C05'}, h_make_cursor('iter')),
    ('&Map', 'IntoIterator', 'into_iter'): ({'C09'}, h_make_cursor('iter')),
    ('&set::Set', 'IntoIterator', 'into_iter'): ({'C09'}, h_make_cursor('iter')),
    (MAP, None, 'drain'): ({'C10', 'C01', 'C05', 'C02'}, h_make_cursor('drain')),
    (SET, None, 'drain'): ({'C10', 'C07', 'C02'}, h_make_cursor('drain')),
    (MAP, 'IntoIterator', 'into_iter'): ({'C10'}, h_make_owner),
    (SET, 'IntoIterator', 'into_iter'): ({'C10'}, h_make_owner),
    (MAP, None, 'into_keys'): ({'C10'}, h_make_owner),
    (MAP, None, 'into_values'): ({'C10'}, h_make_owner),
    (SET, 'Extend', 'extend'): ({'C16', 'C07'}, h_bulk_extend),
    (MAP, 'FromIterator', 'from_iter'): ({'C16', 'C12'}, h_bulk_result),
    (SET, 'FromIterator', 'from_iter'): ({'C16', 'C12'}, h_bulk_result),
    (MAP, 'From', 'from'): ({'C16', 'C12'}, h_bulk_result),
    (SET, 'From', 'from'): ({'C16', 'C12'}, h_bulk_result),
    (MAP, 'Clone', 'clone'): ({'C15'}, h_clone_result),
    (SET, 'Clone', 'clone'): ({'C15'}, h_clone_result),
    (MAP, 'Clone', 'clone_from'): ({'C15'}, h_clone_from),
    (SET, 'Clone', 'clone_from'): ({'C15'}, h_clone_from),
    (MAP, 'PartialEq', 'eq'): ({'C14'}, h_quantifier('eq', 'either')),
    (SET, 'PartialEq', 'eq'): ({'C14'}, h_quantifier('seteq', 'either')),
    (SET, None, 'is_subset'): ({'C08'}, h_quantifier('subset', 'self')),
    (SET, None, 'is_superset'): ({'C08'}, h_quantifier('subset', 'other')),
    (SET, None, 'is_disjoint'): ({'C08'}, h_quantifier('disjoint', 'either')),
    (DIFF, 'Iterator', 'next'): ({'C08'}, h_filter_next('diff')),
    (DIFFREF, 'Iterator', 'next'): ({'C08'}, h_filter_next('diff')),
    (INTER, 'Iterator', 'next'): ({'C08'}, h_filter_next('inter')),
    (DIFF, 'Iterator', 'size_hint'): ({'C08'}, h_filter_hint('diff')),
    (DIFFREF, 'Iterator', 'size_hint'): ({'C08'}, h_filter_hint('diff')),
    (INTER, 'Iterator', 'size_hint'): ({'C08'}, h_filter_hint('inter')),
    (DIFF, 'Iterator', 'fold'): ({'C08'}, h_merge_fold),
    (DIFFREF, 'Iterator', 'fold'): ({'C08'}, h_merge_fold),
    (INTER, 'Iterator', 'fold'): ({'C08'}, h_merge_fold),
    (DIFF, 'Iterator', 'count'): ({'C08'}, h_merge_count),
    (DIFFREF, 'Iterator', 'count'): ({'C08'}, h_merge_count),
    (INTER, 'Iterator', 'count'): ({'C08'}, h_merge_count),
    (SET, None, 'difference'): ({'C08'}, h_make_algebra('difference')),
    (SET, None, 'difference_ref'): ({'C08'}, h_make_algebra('difference')),
    (SET, None, 'intersection'): ({'C08'}, h_make_algebra('intersection')),
    (SET, None, 'union'): ({'C08'}, h_make_algebra('union')),
    (SET, None, 'symmetric_difference'): ({'C08'}, h_make_algebra('symmetric_difference')),
    (MAP, 'Serialize', 'serialize'): ({'C20'}, h_serialize('serialize_map', 'serialize_entry')),
    (SET, 'Serialize', 'serialize'): ({'C20'}, h_serialize('serialize_seq', 'serialize_element')),
    ('serialization::Vi', 'Visitor', 'visit_map'): ({'C20', 'C12'}, h_visit('next_entry')),
    ('set::serialization::Vi', 'Visitor', 'visit_seq'): ({'C20', 'C12'}, h_visit('next_element')),
    (MAP, 'Deserialize', 'deserialize'): ({'C20'}, h_deserialize('deserialize_map')),
    (SET, 'Deserialize', 'deserialize'): ({'C20'}, h_deserialize('deserialize_seq')),
    (MAP, None, 'get_disjoint_mut'): ({'C13'}, h_get_disjoint),
    (MAP, None, 'get_disjoint_unchecked_mut'): ({'C13', 'C18'}, h_unchecked_disjoint),
    (UNION, 'Iterator', 'next'): ({'C08'}, h_merge_next),
    (UNION, 'Iterator', 'size_hint'): ({'C08'}, h_merge_hint),
    (UNION, 'Iterator', 'count'): ({'C08'}, h_merge_count),
    (UNION, 'Iterator', 'fold'): ({'C08'}, h_merge_fold),
    (SYMDIFF, 'Iterator', 'next'): ({'C08'}, h_merge_next),
    (SYMDIFF, 'Iterator', 'size_hint'): ({'C08'}, h_merge_hint),
    (SYMDIFF, 'Iterator', 'fold'): ({'C08'}, h_merge_fold),
    (SYMDIFF, 'Iterator', 'count'): ({'C08'}, h_merge_count),
    (DIFF, 'Clone', 'clone'): ({'C08'}, h_algebra_clone),
    (DIFFREF, 'Clone', 'clone'): ({'C08'}, h_algebra_clone),
    (INTER, 'Clone', 'clone'): ({'C08'}, h_algebra_clone),
    (UNION, 'Clone', 'clone'): ({'C08'}, h_algebra_clone),
    (SYMDIFF, 'Clone', 'clone'): ({'C08'}, h_algebra_clone),
    (MAP, None, 'len'): ({'C05', 'C01'}, h_len),
    (SET, None, 'len'): ({'C05', 'C07'}, h_len),
    (MAP, None, 'is_empty'): ({'C05'}, h_is_empty),
    (SET, None, 'is_empty'): ({'C05'}, h_is_empty),
    (MAP, None, 'capacity'): ({'C03', 'C05'}, h_capacity),
    (SET, None, 'capacity'): ({'C03', 'C05'}, h_capacity),
    (MAP, None, 'new'): ({'C01', 'C05'}, h_new),
    (MAP, 'Default', 'default'): ({'C01', 'C05'}, h_new),
    (SET, None, 'new'): ({'C07', 'C05'}, h_new),
    (SET, 'Default', 'default'): ({'C07', 'C05'}, h_new),
    (MAP, None, 'with_capacity'): ({'C03'}, h_with_capacity),
    ('&set::Set', 'Sub', 'sub'): ({'C08'}, h_sub_result),
    (MAP, None, 'clear'): ({'C01'}, h_clear),
    (SET, None, 'clear'): ({'C07'}, h_clear),
})


CLASSES[(SET, 'Extend', 'extend')] = {'extended'}
for _k in ((MAP, 'Clone', 'clone_from'), (SET, 'Clone', 'clone_from')):
    OPTIONAL.add(_k)
    CLASSES[_k] = {'cloned'}
CLASSES[('&set::Set', 'Sub', 'sub')] = {'built'}
# insert_unchecked: "full map, key present" is inside the contract: replacing must return normally there too
CLASSES[(MAP, None, 'insert_unchecked')] = {'hit', 'append', 'append@last-slot', 'hit@no-append', 'hit@not-full'}
CLASSES[(MAP, None, 'get_disjoint_unchecked_mut')] = {'returned'}
for _k in list(HANDLERS):
    if _k[0] in (MAP, SET) and _k[1] in (None, 'Default'):
        if _k[2] in ('len', 'is_empty', 'capacity'):
            CLASSES[_k] = {'observed'}
        if _k[2] in ('new', 'default', 'with_capacity'):
            CLASSES[_k] = {'made'}


# C06, "every element reference handed out points inside the bytes of the container value itself": the roots
# whose result IS a reference (or references) to stored elements.  On every normal return each reference in the
# result must point into a slot of a container the caller owns -- not into the handle it was asked through, a
# temporary, a static or a copy.  (VacantEntry::key / into_key hand out the key the CALLER supplied, which is not
# stored yet: not element references, not listed.)
INSIDE_ROOTS = set()


def _refs_in(v, out, d=0):
    if not isinstance(v, tuple) or not v or d > 8:
        return
    if v[0] == 'ref':
        out.append(v)
    elif v[0] == 'tuple':
        for x in v[1]:
            _refs_in(x, out, d + 1)
    elif v[0] == 'adt':
        for x in v[3]:
            _refs_in(x, out, d + 1)
    elif v[0] in ('unk', 'opq'):
        out.append(v)


def inside_rule(ctx, p):
    refs = []
    _refs_in(p.val, refs)
    for r in refs:
        if r[0] != 'ref':
            # an unknown value where element references are expected: whether they point into the container is open
            if r[0] == 'unk' and isinstance(r[1], dict) and _ty_has_ref(r[1]):
                ctx.req('INSIDE', False, ctx.body.name, 'the result is a value the analysis cannot resolve, where references '
                        'to stored elements are expected (%s)' % (str(r)[:160],), p, props={'C06'})
            continue
        t = r[2]
        ms = p.st.maps.get(t[1]) if isinstance(t, tuple) and len(t) > 1 and t[0] == 'pair' else None
        ok = ms is not None and ms.borrowed and not ms.dead
        ctx.req('INSIDE', ok, ctx.body.name, 'every element reference handed out must point into a slot of the container '
                'itself (this one points to %s)' % (str(t)[:160],), p, props={'C06'})


def _ty_has_ref(t, d=0):
    if not isinstance(t, dict) or d > 6:
        return False
    if t.get('k') == 'ref':
        return True
    return any(_ty_has_ref(x, d + 1) for x in (t.get('args') or []) + (t.get('elems') or []) + ([t['to']] if 'to' in t else []))


def check_root(E, body, rr):
    _VAC_E[0] = E
    key = root_key(body)
    digest = {'root_key': '%s/%s/%s' % key}
    if rr is None or getattr(rr, 'args', None) is None:
        return digest
    E.root = body.id
    E.chain = [body.id]
    E.cur_span = body.span
    E.in_unwind = False
    tags = arg_tags(body)
    subj = rr.subjects
    first = subj[0] if subj else []
    rets = [(s, v) for kind, s, v in rr.outcomes if kind == 'ret']
    h = HANDLERS.get(key)
    if h is not None:
        props, fn = h
        ctx = Ctx(E, body, set(props))
        # entry-time receiver, references followed
        self0 = None
        if rr.args:
            self0 = rr.args[0]
            d = 0
            while self0 is not None and self0[0] == 'ref' and d < 4:
                try:
                    self0 = E.load(rr.st0, self0[2], quiet=True)
                except Exception:
                    self0 = None
                d += 1
        def entry_self0(args, st0):
            v = args[0] if args else None
            d = 0
            while v is not None and v[0] == 'ref' and d < 4:
                try:
                    v = E.load(st0, v[2], quiet=True)
                except Exception:
                    v = None
                d += 1
            return v
        for s, val in rets:
            p = Path(E, body, s, val, first, dict(tags))
            p.self0 = self0
            p.subjects_all = subj
            p.args0 = rr.args
            ent = [n for n in s.notes if n[0] == 'entry']
            if ent and ent[-1][1] < len(getattr(rr, 'entries', ())) and ent[-1][1] > 0:
                # (a root analysed from several entry states: Option<iterator> fields present / absent)
                a_n, st_n = rr.entries[ent[-1][1]]
                p.self0 = entry_self0(a_n, st_n)
                p.args0 = a_n
            p.idx0 = None
            p.variant_fields = {}
            # Entry receivers: the index of the Occupied variant as materialised on this path
            for e in s.events:
                if e[0] == 'variant-val':
                    p.variant_fields[e[2]] = e[3]
            fn(ctx, p)
            if key in INSIDE_ROOTS:
                inside_rule(ctx, p)
        uh = UNWIND_HANDLERS.get(key)
        if uh is not None:
            uctx = Ctx(E, body, set(uh[0]))
            for kind, s, val in rr.outcomes:
                if kind != 'unwind':
                    continue
                origin = [e for e in s.events if e and e[0] == 'panic']
                if not origin or origin[-1][1] == 'user':
                    continue        # a panic of user code: not the container's refusal
                p = Path(E, body, s, UNIT, first, dict(tags))
                p.self0 = self0
                p.subjects_all = subj
                p.args0 = rr.args
                p.idx0 = None
                p.variant_fields = {}
                for e in s.events:
                    if e[0] == 'variant-val':
                        p.variant_fields[e[2]] = e[3]
                uh[1](uctx, p)
            for c2, n2 in uctx.classes.items():
                ctx.classes[c2] += n2
        digest['classes'] = dict(ctx.classes)
        digest['paths'] = len(rets)
        if getattr(E, 'part_order', None):
            digest['part_order'] = sorted(E.part_order)
        for c in sorted(required_classes(key)):
            E.oblig('OUT', ctx.classes.get(c, 0) > 0, body.name + ':class-' + c,
                    'no path of class "%s" was produced for this root: its schema would pass vacuously' % c,
                    'unproven', props=sorted(ctx.props), sample='%d paths of class %s' % (ctx.classes.get(c, 0), c))
        if not rets:
            E.oblig('OUT', False, body.name, 'the root has no normal-return path at all', 'unproven',
                    props=sorted(ctx.props))
    uo = unknown_override(body)
    if uo:
        E.oblig('OVERRIDE', False, body.name,
                'this type overrides %s::%s, for which no schema exists: its agreement with the default '
                'behaviour (derived from next / eq / clone) is not established' % (key[1], key[2]), 'unproven', props=[uo])
    ih = ITER_HOOKS.get(key)
    if ih is not None:
        ic = getattr(E, 'iter_classes', {})
        digest['iteration_classes'] = dict(ic)
        for c in sorted(ih[2]):
            E.oblig('OUT', ic.get(c, 0) > 0, body.name + ':iteration-class-' + c,
                    'no loop iteration of class "%s" was seen for this root: its per-iteration schema would pass '
                    'vacuously' % c, 'unproven', props=sorted(ih[0]), sample='%d iterations of class %s' % (ic.get(c, 0), c))
    E.chain = []
    return digest




# C19 (listing clause): which entries Debug / Display hand to the formatter
FMT_ROOTS = {
    (MAP, 'Debug', 'fmt'): ('pair', True), (MAP, 'Display', 'fmt'): ('pair', True),
    (SET, 'Debug', 'fmt'): ('key', True), (SET, 'Display', 'fmt'): ('key', True),
    (ITER, 'Debug', 'fmt'): ('pair', False), (ITERMUT, 'Debug', 'fmt'): ('pair', False), (DRAIN, 'Debug', 'fmt'): ('pair', False),
    (INTOITER, 'Debug', 'fmt'): ('pair', False),
    (KEYS, 'Debug', 'fmt'): ('key', False), (INTOKEYS, 'Debug', 'fmt'): ('key', False),
    (VALUES, 'Debug', 'fmt'): ('value', False), (VALUESMUT, 'Debug', 'fmt'): ('value', False), (INTOVALUES, 'Debug', 'fmt'): ('value', False),
}
for _k, (_how, _ord) in FMT_ROOTS.items():
    HANDLERS[_k] = ({'C19'}, h_fmt_listing(_how, _ord))
    ITER_HOOKS[_k] = ({'C19'}, fmt_iteration(_how, _ord), {'rendered'})
    CLASSES[_k] = {'rendered-all'}
    ADV_TRACK.add(_k)
SER_ROOTS = {(MAP, 'Serialize', 'serialize'), (SET, 'Serialize', 'serialize')}
FMT_CLONE_ROOTS = set()
for _path in (DIFF, DIFFREF, INTER, UNION, SYMDIFF):
    FMT_CLONE_ROOTS.add((_path, 'Debug', 'fmt'))
    ITER_HOOKS[(_path, 'Debug', 'fmt')] = ({'C19'}, fmt_clone_iteration, set())
    HANDLERS[(_path, 'Debug', 'fmt')] = ({'C19'}, h_fmt_via_clone)
    CLASSES[(_path, 'Debug', 'fmt')] = {'rendered-clone'}
    CLASSES[(_path, 'Clone', 'clone')] = {'made'}

for _k in list(HANDLERS):
    if (_k[0] == MAP and _k[1] is None and _k[2] in ('get', 'get_mut', 'get_key_value')) \
            or (_k[0] == MAP and _k[1] in ('Index', 'IndexMut')) or (_k[0] == SET and _k[2] == 'get') \
            or (_k[0] == OCC and _k[2] in ('key', 'get', 'get_mut', 'into_mut')) \
            or (_k[0] == ENT and _k[2] in ('or_insert', 'or_insert_with', 'or_insert_with_key', 'or_default')) \
            or _k == (VAC, None, 'insert') \
            or (_k[0] in (ITER, ITERMUT, KEYS, VALUES, VALUESMUT, SETITER, DIFF, INTER, UNION, SYMDIFF)
                and _k[1] == 'Iterator' and _k[2] == 'next'):
        # (not DifferenceRef: a Set<&T> stores references and its iterator yields the stored elements themselves,
        # by value -- they point wherever the caller's data lives)
        INSIDE_ROOTS.add(_k)

UNWIND_HANDLERS.update({
    (ENT, None, 'or_insert_with'): ({'C11'}, u_or_insert('with')),
    (ENT, None, 'or_insert_with_key'): ({'C11'}, u_or_insert('with_key')),
    (ENT, None, 'or_default'): ({'C11'}, u_or_insert('default')),
})
