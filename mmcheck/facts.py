"""Loader for the fact files written by mmdrv, plus CFG utilities."""
import json


class Body:
    def __init__(self, j):
        self.j = j
        self.id = j['id']
        self.kind = j['kind']
        self.name = j.get('name')
        self.parent = j.get('parent')
        self.arg_count = j['arg_count']
        self.locals = j['locals']
        self.blocks = j['blocks']
        self.generics = [g for g in j['generics'] if g['kind'] != 'lifetime']
        self.reachable = j.get('reachable', False)
        self.unsafe = j.get('unsafe', False)
        self.impl = j.get('impl')
        self.span = j.get('span')
        self._loop_heads = None

    def succs(self, bi, with_unwind=False):
        t = self.blocks[bi]['term']
        k = t['k']
        out = []
        if k == 'goto':
            out.append(t['target'])
        elif k == 'switch':
            out.extend(x[1] for x in t['targets'])
            out.append(t['otherwise'])
        elif k in ('call', 'drop', 'assert'):
            if t.get('target') is not None:
                out.append(t['target'])
            if with_unwind and t.get('unwind', '').startswith('cleanup:'):
                out.append(int(t['unwind'].split(':')[1]))
        return out

    def loop_heads(self):
        """targets of back edges (DFS over the whole CFG incl. cleanup edges)"""
        if self._loop_heads is not None:
            return self._loop_heads
        heads = set()
        color = {}
        stack = [(0, iter(self.succs(0, True)))]
        color[0] = 1
        while stack:
            n, it = stack[-1]
            adv = False
            for s in it:
                c = color.get(s, 0)
                if c == 0:
                    color[s] = 1
                    stack.append((s, iter(self.succs(s, True))))
                    adv = True
                    break
                elif c == 1:
                    heads.add(s)
            if not adv:
                color[n] = 2
                stack.pop()
        self._loop_heads = heads
        return heads

    def loop_bodies(self):
        """head -> blocks of the natural loop(s) with that head (incl. cleanup edges)"""
        if getattr(self, '_loop_bodies', None) is not None:
            return self._loop_bodies
        heads = self.loop_heads()
        preds = {}
        for b in range(len(self.blocks)):
            for t in self.succs(b, True):
                preds.setdefault(t, set()).add(b)
        # dominance is not needed: a back edge is an edge into a head from a block the head reaches
        reach = {}
        for h in heads:
            seen = {h}
            st = [h]
            while st:
                n = st.pop()
                for t in self.succs(n, True):
                    if t not in seen:
                        seen.add(t)
                        st.append(t)
            reach[h] = seen
        out = {}
        for h in heads:
            body = {h}
            st = [b for b in preds.get(h, ()) if b in reach[h]]
            while st:
                n = st.pop()
                if n in body:
                    continue
                body.add(n)
                st.extend(preds.get(n, ()))
            out[h] = body
        self._loop_bodies = out
        return out

    # ---- local liveness (used to prune dead temporaries at loop heads) -------------
    def _place_uses(self, p, uses):
        uses.add(p['local'])
        for e in p['proj']:
            if isinstance(e, dict) and 'index' in e:
                uses.add(e['index'])

    def _op_uses(self, o, uses):
        if 'copy' in o:
            self._place_uses(o['copy'], uses)
        elif 'move' in o:
            self._place_uses(o['move'], uses)

    def _rv_uses(self, rv, uses, borrowed):
        k = next(iter(rv))
        v = rv[k]
        if k == 'use':
            self._op_uses(v, uses)
        elif k in ('ref', 'rawptr'):
            self._place_uses(v['place'], uses)
            if not any(e == 'deref' for e in v['place']['proj']):
                borrowed.add(v['place']['local'])
        elif k == 'bin':
            self._op_uses(v['l'], uses)
            self._op_uses(v['r'], uses)
        elif k == 'un':
            self._op_uses(v['x'], uses)
        elif k == 'agg':
            for o in v['ops']:
                self._op_uses(o, uses)
        elif k == 'discr':
            self._place_uses(v, uses)
        elif k == 'cast':
            self._op_uses(v['op'], uses)
        elif k == 'repeat':
            self._op_uses(v['op'], uses)

    def liveness(self):
        """live-in sets per block; borrowed locals are treated as always live"""
        if getattr(self, '_live_in', None) is not None:
            return self._live_in, self._borrowed
        n = len(self.blocks)
        use = [set() for _ in range(n)]
        deff = [set() for _ in range(n)]
        borrowed = set()
        for bi, b in enumerate(self.blocks):
            u, d = use[bi], deff[bi]

            def see_uses(us):
                for x in us:
                    if x not in d:
                        u.add(x)
            for s in b['stmts']:
                if s['k'] == 'assign':
                    us = set()
                    self._rv_uses(s['rv'], us, borrowed)
                    pl = s['place']
                    if pl['proj']:
                        self._place_uses(pl, us)
                    see_uses(us)
                    if not pl['proj']:
                        d.add(pl['local'])
            t = b['term']
            us = set()
            if t['k'] == 'switch':
                self._op_uses(t['discr'], us)
            elif t['k'] == 'call':
                for o in t['operands']:
                    self._op_uses(o, us)
                if 'fn_operand' in t['callee']:
                    self._op_uses(t['callee']['fn_operand'], us)
                if t['dest']['proj']:
                    self._place_uses(t['dest'], us)
            elif t['k'] == 'drop':
                self._place_uses(t['place'], us)
            elif t['k'] == 'assert':
                self._op_uses(t['cond'], us)
                for o in t['msg_operands']:
                    self._op_uses(o, us)
            elif t['k'] == 'return':
                us.add(0)
            see_uses(us)
            if t['k'] == 'call' and not t['dest']['proj']:
                d.add(t['dest']['local'])
        live_in = [set() for _ in range(n)]
        changed = True
        while changed:
            changed = False
            for bi in range(n - 1, -1, -1):
                out = set()
                for s in self.succs(bi, True):
                    out |= live_in[s]
                new = use[bi] | (out - deff[bi])
                if new != live_in[bi]:
                    live_in[bi] = new
                    changed = True
        self._live_in = live_in
        self._borrowed = borrowed
        return live_in, borrowed

    def calls(self):
        for bi, b in enumerate(self.blocks):
            t = b['term']
            if t['k'] == 'call':
                yield bi, t

    def is_trait_impl(self):
        return bool(self.impl and self.impl.get('trait'))


class Facts:
    def __init__(self, path):
        with open(path) as f:
            self.j = json.load(f)
        self.path = path
        self.config = self.j.get('config')
        self.nonce = self.j.get('nonce')
        self.crate = self.j['crate']
        self.bodies = {b['id']: Body(b) for b in self.j['bodies']}
        self.adts = {a['path']: a for a in self.crate['adts']}

    def body(self, bid):
        return self.bodies.get(bid)

    def find(self, suffix):
        return [b for i, b in self.bodies.items() if i.endswith(suffix)]


# ---------------------------------------------------------------- type helpers
def ty_is_adt(t, path):
    return t.get('k') == 'adt' and t['path'] == path


MU = 'core::mem::maybe_uninit::MaybeUninit'


def ty_is_mu(t):
    return t.get('k') == 'adt' and t['path'] == MU


def ty_mentions(t, pred):
    if pred(t):
        return True
    k = t.get('k')
    if k in ('ref', 'rawptr'):
        return ty_mentions(t['to'], pred)
    if k == 'tuple':
        return any(ty_mentions(e, pred) for e in t['elems'])
    if k in ('array', 'slice'):
        return ty_mentions(t['elem'], pred)
    if k in ('adt', 'fndef'):
        return any(ty_mentions(a, pred) for a in t['args'] if a.get('k') != 'const')
    if k == 'closure':
        return any(ty_mentions(a, pred) for a in t['upvars'])
    return False


def ty_str(t):
    if t is None:
        return '?'
    k = t.get('k')
    if k == 'prim':
        return t['name']
    if k == 'adt':
        a = ', '.join(ty_str(x) if x.get('k') != 'const' else x['v'] for x in t['args'])
        return t['path'].split('::')[-1] + ('<%s>' % a if a else '')
    if k == 'ref':
        return ('&mut ' if t['mut'] else '&') + ty_str(t['to'])
    if k == 'tuple':
        return '(%s)' % ', '.join(ty_str(e) for e in t['elems'])
    if k == 'array':
        return '[%s; %s]' % (ty_str(t['elem']), t['len'])
    if k == 'slice':
        return '[%s]' % ty_str(t['elem'])
    if k == 'param':
        return t['name']
    if k == 'closure':
        return '{closure %s}' % t['body'].split('::')[-2:]
    if k == 'never':
        return '!'
    return t.get('s', k)
