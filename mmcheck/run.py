"""Run the slot interpreter (and the per-root specification rules) over every root of one fact
file, in parallel, and merge the results into a JSON-able summary."""
import collections
import multiprocessing
import os
import sys
import time
import traceback

from .facts import Facts
from . import roots as roots_mod

_FACTS = {}

# unsafe entry points and the disjuncts of their documented precondition (DESIGN.md §6.C18)
CONTRACTS = {
    # "the map is not full, or the key is already present (then nothing is appended)"
    'insert_unchecked': ['not-full', 'no-append'],
}


def _init(paths):
    global _FACTS
    sys.setrecursionlimit(20000)
    try:
        # a runaway abstract state must end as SHAPE/unproven for that root, not take the machine down
        import resource
        lim = int(os.environ.get('VERIF_WORKER_MEM_GB', '6')) << 30
        resource.setrlimit(resource.RLIMIT_AS, (lim, lim))
    except Exception:
        pass
    _FACTS = {c: Facts(p) for c, p in paths.items()}


def _work(task):
    cfg, bid = task
    from .engine import Engine
    from . import specs
    facts = _FACTS[cfg]
    E = Engine(facts)
    b = facts.bodies[bid]
    t0 = time.time()
    E.iter_classes = collections.Counter()
    E.part_order = set()
    E.iteration_hook = specs.iteration_hook_for(E, b)
    try:
        if b.unsafe and b.name in CONTRACTS:
            # the documented precondition is a disjunction: one pass per disjunct
            rr = None
            for c in CONTRACTS[b.name]:
                r1 = roots_mod.run_root(E, b, c)
                if rr is None:
                    rr = r1
                else:
                    rr.outcomes += r1.outcomes
                    rr.error = rr.error or r1.error
        else:
            rr = roots_mod.run_root(E, b, None)
        try:
            digest = specs.check_root(E, b, rr)
        except Exception as e:
            E.root = bid
            E.chain = []
            E.violate('SPEC', 'unproven', 'crash', '%s: %s' % (type(e).__name__, e))
            digest = {'error': traceback.format_exc()}
        err = rr.error
        n_exits = len(rr.outcomes)
        n_unw = sum(1 for o in rr.outcomes if o[0] == 'unwind')
    except Exception as e:
        E.root = bid
        E.chain = []
        E.violate('SHAPE', 'unproven', 'crash', '%s: %s' % (type(e).__name__, e))
        err = traceback.format_exc()
        n_exits = n_unw = 0
        digest = {}
    rp = sorted(specs.props_of_root(b))
    vjs = [v.to_json() for v in E.violations]
    for v in vjs:
        v['root_props'] = rp
    return {
        'cfg': cfg,
        'root': bid,
        'root_key': list(specs.root_key(b)),
        'root_props': rp,
        'kind': roots_mod.root_kind(b),
        'span': b.span,
        'violations': vjs,
        'n_oblig': dict(E.n_oblig),
        'n_ok': dict(E.n_ok),
        'n_oblig_p': dict(E.n_oblig_p),
        'n_ok_p': dict(E.n_ok_p),
        'samples': {k: v for k, v in E.samples.items()},
        'stats': dict(E.stats),
        'cover': sorted('%s|%s' % c for c in E.cover),
        'exits': n_exits,
        'unwind_exits': n_unw,
        'error': err,
        'wall': time.time() - t0,
        'digest': digest,
        'opaque': sorted(k for k in E.unmodelled if k.startswith('opaque:')),
    }


def analyse_configs(paths, jobs=None, only=None, select=None):
    """paths: {cfg: fact file}; one process pool over all (cfg, root) pairs"""
    facts = {c: Facts(p) for c, p in paths.items()}
    tasks = []
    for c, f in facts.items():
        ids = [bid for bid in sorted(f.bodies) if roots_mod.is_root(f.bodies[bid])]
        if only:
            ids = [i for i in ids if any(o in i for o in only)]
        if select is not None:
            ids = [i for i in ids if select(f.bodies[i], c)]
        tasks += [(c, i) for i in ids]
    tasks.sort(key=lambda t: -sum(len(b['stmts']) + 1 for b in facts[t[0]].bodies[t[1]].blocks))
    jobs = jobs or min(16, os.cpu_count() or 4)
    t0 = time.time()
    if jobs == 1:
        _init(paths)
        res = [_work(t) for t in tasks]
    else:
        ctx = multiprocessing.get_context('fork')
        with ctx.Pool(jobs, initializer=_init, initargs=(paths,)) as pool:
            res = pool.map(_work, tasks, chunksize=1)
    wall = time.time() - t0
    merged = {}
    for c, f in facts.items():
        rs = [r for r in res if r['cfg'] == c]
        m = {
            'config': c,
            'roots': {r['root']: r for r in rs},
            'violations': [v for r in rs for v in r['violations']],
            'n_oblig': collections.Counter(),
            'n_ok': collections.Counter(),
            'n_oblig_p': collections.Counter(),
            'n_ok_p': collections.Counter(),
            'stats': collections.Counter(),
            'wall': wall,
            'n_bodies': len(f.bodies),
        }
        # cross-root agreement: fold must take the parts of a merged iterator in the order next() does
        by_type = {}
        for r in rs:
            k = r.get('root_key') or []
            if len(k) == 3 and k[1] == 'Iterator' and k[2] in ('next', 'fold') and (r.get('digest') or {}).get('part_order'):
                by_type.setdefault(k[0], {})[k[2]] = r
        for tp, d in sorted(by_type.items()):
            if 'next' in d and 'fold' in d:
                on = {tuple(x) for x in d['next']['digest']['part_order']}
                of = {tuple(x) for x in d['fold']['digest']['part_order']}
                bad = sorted((i, j) for (i, j) in of if (j, i) in on and (i, j) not in on)
                m['n_oblig']['ORDER'] += 1
                m['n_oblig_p']['C08'] += 1
                if bad:
                    r = d['fold']
                    v = {'rule': 'ORDER', 'status': 'refuted', 'root': r['root'], 'chain': [], 'primitive': 'part order',
                         'what': 'fold takes the elements of part %d before those of part %d, next() yields them the other '
                                 'way round: fold does not give the result of stepping with next()' % bad[0],
                         'span': r.get('span'), 'config': c, 'key': 'ORDER|%s||part order' % r['root'],
                         'unwinding': False, 'props': ['C08'], 'root_props': r.get('root_props')}
                    r['violations'].append(v)
                    m['violations'].append(v)
                else:
                    m['n_ok']['ORDER'] += 1
                    m['n_ok_p']['C08'] += 1
        for r in rs:
            m['n_oblig'].update(r['n_oblig'])
            m['n_ok'].update(r['n_ok'])
            m['n_oblig_p'].update(r.get('n_oblig_p', {}))
            m['n_ok_p'].update(r.get('n_ok_p', {}))
            m['stats'].update(r['stats'])
        merged[c] = m
    return facts, merged


def analyse_config(path, jobs=None, only=None):
    f = Facts(path)
    facts, merged = analyse_configs({f.config or 'A': path}, jobs, only)
    k = next(iter(facts))
    return facts[k], merged[k]
