"""Execution engine of the slot interpreter: CFG walk with loop-head joins, calls (inlining of
local bodies, models of core functions, user callbacks), drops, unwinding into cleanup blocks."""
from .zone import Zone, Term, fresh, ZERO
from .state import (State, MapState, MOVED, UNIT, TRUE, FALSE, I, OPTION, RESULT, CFLOW, NONE, some,
                    map_terms, terms_of, is_persistent)
from . import slots
from .slots import Unproven
from .interp import Pruned, Interp, Outcome, MAX_STEPS, WIDEN_AFTER, short, SLICE_ITER, SLICE_ITERMUT, RANGE
from .facts import ty_is_mu

ITER_TRAIT = 'core::iter::traits::iterator::Iterator'
FN_TRAITS = ('core::ops::function::FnOnce', 'core::ops::function::FnMut', 'core::ops::function::Fn')
DROP_TRAIT = 'core::ops::drop::Drop'


class Budget(Exception):
    pass


def typed_opq(ty, tag, depth=0):
    """an opaque user value of a known tuple type: the tuple structure is kept, the leaves stay opaque"""
    if ty is not None and ty.get('k') == 'tuple' and ty.get('elems') and depth < 3:
        return ('tuple', tuple(typed_opq(e, tag + (i,), depth + 1) for i, e in enumerate(ty['elems'])))
    return ('opq', tag)


def plain_data(ty, depth=0):
    """integers, bool, and tuples / Options of such: no references, no type parameters, no user types"""
    k = ty.get('k')
    if k == 'prim':
        return ty.get('name') in ('usize', 'isize', 'u8', 'u16', 'u32', 'u64', 'u128', 'i8', 'i16', 'i32', 'i64', 'i128', 'bool')
    if depth > 3:
        return False
    if k == 'tuple':
        return bool(ty['elems']) and all(plain_data(e, depth + 1) for e in ty['elems'])
    if k == 'adt' and ty.get('path') == OPTION:
        return all(plain_data(a, depth + 1) for a in ty.get('args', []) if a.get('k') != 'lifetime') and bool(ty.get('args'))
    return False


class Engine(Interp):

    # ------------------------------------------------------------------ canonicalisation / joins
    def gc(self, st):
        """drop heap cells that nothing refers to any more (ids are reused deterministically)"""
        seen = set()
        work = []

        def scan(v):
            if isinstance(v, tuple):
                if len(v) >= 2 and v[0] == 'O' and isinstance(v[1], str):
                    if v[1] not in seen:
                        seen.add(v[1])
                        work.append(v[1])
                for x in v:
                    scan(x)
        for fr in st.frames.values():
            for v in fr.values():
                scan(v)
        for o in st.keep:
            if o in st.objs and o not in seen:
                seen.add(o)
                work.append(o)
        while work:
            o = work.pop()
            if o in st.objs:
                scan(st.objs[o])
        for o in list(st.objs):
            if o not in seen and o not in st.keep:
                del st.objs[o]

    def canonicalise(self, st, tag):
        self.gc(st)
        if st.pairs:
            self.norm_pairs(st)
        pairs = []
        memo_any = {}
        n = [0]

        def new():
            n[0] += 1
            return Term('%s.%d' % (tag, n[0]))

        first_alias = {}

        def pos(x):
            c = new()
            pairs.append((c, x))
            if isinstance(x, Term) and x not in first_alias:
                first_alias[x] = c
            return c

        def anyterm(t):
            if is_persistent(t):
                return t
            if t in memo_any:
                return memo_any[t]
            c = new()
            pairs.append((c, t))
            memo_any[t] = c
            return c

        def cw(v):
            if isinstance(v, Term):
                return anyterm(v)
            if isinstance(v, tuple):
                if not v:
                    return v
                h = v[0]
                if h == 'int' and len(v) == 2 and (isinstance(v[1], (int, Term))):
                    return ('int', pos(v[1]))
                if h == 'slen' and len(v) == 3:
                    return ('slen', pos(v[1]), pos(v[2]))
                if h == 'sliceit' and len(v) == 5:
                    return ('sliceit', v[1], pos(v[2]), pos(v[3]), v[4])
                if h == 'mu' and len(v) == 3:
                    return ('mu', v[1], pos(v[2]))
                if h == 'rawslot' and len(v) == 4:
                    return ('rawslot', v[1], pos(v[2]), v[3])
                if h == 'rawbase' and len(v) == 4:
                    return ('rawbase', v[1], pos(v[2]), pos(v[3]))
                if h == 'mu_copy' and len(v) == 3:
                    return ('mu_copy', v[1], pos(v[2]))
                if h == 'pair' and len(v) == 4:
                    return ('pair', v[1], pos(v[2]), v[3])
                if h == 'slice' and len(v) == 4:
                    return ('slice', v[1], pos(v[2]), pos(v[3]))
                if h == 'idx' and len(v) == 2:
                    return ('idx', pos(v[1]))
                if h in ('oarr', 'oslice') and len(v) == 3:
                    return (h, cw(v[1]), pos(v[2]))
                if h == 'oslice' and len(v) == 5:
                    return (h, cw(v[1]), pos(v[2]), pos(v[3]), pos(v[4]))
                if h == 'opqit' and len(v) == 5:
                    return (h, cw(v[1]), v[2], pos(v[3]), pos(v[4]))
                if h == 'boolc' and len(v) == 2:
                    return ('boolc', ccond(v[1]))
                if h == 'aff' and len(v) == 3:
                    return ('aff', tuple(sorted(((anyterm(t), c) for t, c in v[1]), key=lambda x: x[0].name)), v[2])
                return tuple(cw(x) for x in v)
            return v

        def ccond(c):
            if c[0] == 'Not':
                return ('Not', ccond(c[1]))
            out = [c[0]]
            for x in c[1:]:
                if isinstance(x, tuple):
                    out.append(cw(x))
                else:
                    out.append(pos(x))
            return tuple(out)

        s2 = st  # rewritten in place (the caller owns st)
        for fid in sorted(s2.frames):
            fr = s2.frames[fid]
            for l in sorted(fr):
                fr[l] = cw(fr[l])
        for oid in sorted(s2.objs):
            s2.objs[oid] = cw(s2.objs[oid])
        for mid in sorted(s2.maps):
            ms = s2.maps[mid]
            if ms.dead:
                continue
            ms.len = pos(ms.len)
            ms.holes = tuple(pos(h) for h in ms.holes)
            ms.extras = tuple(pos(h) for h in ms.extras)
            ms.hole_rng = (pos(ms.hole_rng[0]), pos(ms.hole_rng[1]))
            ms.extra_rng = (pos(ms.extra_rng[0]), pos(ms.extra_rng[1]))
            # value tags are relative to the last loop head (or the root entry): forget overrides
            ms.contents = ()
            if ms.examined is not None:
                ms.examined = (cw(ms.examined[0]), pos(ms.examined[1]), pos(ms.examined[2])) + tuple(ms.examined[3:])
            if ms.pending is not None:
                ms.pending = (pos(ms.pending[0]), cw(ms.pending[1]) if ms.pending[1] is not None else None)
            if ms.asked is not None:
                ms.asked = tuple((pos(lo), pos(hi)) for lo, hi in ms.asked)
                ms.asked_carry = None
        if s2.aux:
            s2.aux = tuple((h, l, pos(d)) for h, l, d in s2.aux)
        s2.pendload = None
        s2.loadcache = {}
        if s2.hitpairs:
            s2.hitpairs = tuple((first_alias[a], first_alias[b], m, kt) for a, b, m, kt in s2.hitpairs
                                if a in first_alias and b in first_alias)[-4:]
        for k in sorted(s2.ghost, key=str):
            g = s2.ghost[k]
            s2.ghost[k] = (pos(g[0]), g[1])
        for k in sorted(s2.pairs, key=str):
            pv = s2.pairs[k]
            if pv is not None:
                s2.pairs[k] = (pos(pv[0]), pos(pv[1]), pos(pv[2]))
        # zone: the canonical names are aliases of the old terms; everything else (except the
        # persistent entry-state terms) is projected away
        s2.zone = s2.zone.remap(pairs, is_persistent)
        shape = self.shape_of(s2)
        first_alias.update({t: c for t, c in memo_any.items() if t not in first_alias})
        self.last_alias = first_alias
        return shape, s2

    def shape_of(self, st):
        fr = tuple((fid, tuple(sorted(st.frames[fid].items()))) for fid in sorted(st.frames))
        ob = tuple(sorted(st.objs.items()))
        mp = []
        for mid in sorted(st.maps):
            ms = st.maps[mid]
            mp.append((mid, ms.len, ms.cap, ms.holes, ms.extras, ms.hole_rng, ms.extra_rng, ms.contents,
                       ms.exempt, ms.dead, ms.owned_extras, ms.examined, ms.pending, ms.asked))
        return (fr, ob, tuple(mp), st.unwinding, tuple(sorted(st.pairs.items(), key=str)),
                tuple(sorted(((k, g[1]) for k, g in st.ghost.items()), key=str)), st.aux, st.guards,
                tuple(sorted(st.arrinv.items(), key=str)), st.hitpairs)

    def loop_join(self, table, key, st):
        """at a loop head: returns the state to continue with, or None when subsumed"""
        hook = getattr(self, 'iteration_hook', None)
        if key in st.loops:
            depth = st.loops.index(key)
            st.loops = st.loops[:depth + 1]
        else:
            depth = len(st.loops)
            st.loops = st.loops + (key,)
        if not table.get(key) and key in st.ghost:
            # a new activation of this loop: the ghost counter of the previous one is final
            n = 0
            while (key, 'done', n) in st.ghost:
                n += 1
            st.ghost[(key, 'done', n)] = st.ghost.pop(key)
        if hook is not None and not st.unwinding and table.get(key):
            # (a non-empty table entry: this activation of the loop has been through its head before)
            ev = st.events
            mark = ('loop', key)
            last = None
            for i in range(len(ev) - 1, -1, -1):
                if ev[i] == mark:
                    last = i
                    break
            if last is not None:
                # one complete iteration of this loop: events since the head was last left
                hook(key, st, ev[last + 1:], depth)
        for ms in st.maps.values():
            ex = ms.examined
            if ex is not None and len(ex) > 3 and key in ex[3] and ex[3][-1] != key:
                # a scan record begun inside an iteration of this loop, by a loop nested in it: the iteration is
                # over, and so is the use of that record (dropping a fact is always sound)
                ms.examined = None
        try:
            shape, st = self.canonicalise(st, 'h%s' % (key,))
        except TypeError:
            raise
        entries = table.setdefault(key, {})
        e = entries.get(shape)
        if e is None:
            if len(entries) > 40:
                self.violate('SHAPE', 'unproven', 'loop', 'too many distinct abstract shapes at a loop head')
                return None
            # the log keeps speaking about the same quantities: terms that live on under a canonical name are
            # renamed in the events as well (terms that are not live any more stay as they are: unknown to the zone)
            am = self.last_alias
            if am:
                from .state import map_terms
                st.events = tuple(map_terms(e, lambda t: am.get(t, t)) for e in st.events)
            entries[shape] = {'zone': st.zone.copy(), 'count': 0, 'events': st.events + (('loop', key),)}
            st.events = entries[shape]['events']
            self.last_shape = shape
            return st
        if st.zone.leq(e['zone']):
            self.stats['subsumed'] += 1
            return None
        e['count'] += 1
        if e['count'] > 60:
            self.violate('SHAPE', 'unproven', 'loop', 'loop head did not stabilise')
            return None
        j = e['zone'].join(st.zone)
        if e['count'] > WIDEN_AFTER:
            j = e['zone'].widen(j)
        e['zone'] = j
        st.zone = j.copy()
        st.events = e['events']
        self.last_shape = shape
        return st

    @staticmethod
    def end_loops(st, pred):
        for i, k in enumerate(st.loops):
            if pred(k):
                st.loops = st.loops[:i]
                return

    def join_all(self, table, key, states):
        """join a batch of states arriving at the same loop head; one survivor per shape"""
        latest = {}
        for s in states:
            r = self.loop_join(table, key, s)
            if r is not None:
                latest[self.last_shape] = r
        return list(latest.values())

    # ------------------------------------------------------------------ function execution
    def callee_gs(self, st, fid, callee, body2):
        gs = st.fmeta[fid][1] if fid in st.fmeta else {}
        out = {}
        rargs = callee.get('rargs', callee.get('args', []))
        for g, a in zip(body2.generics, rargs):
            if g['kind'] == 'const' and a.get('k') == 'const':
                out[g['name']] = self.const_term(st, a['v'], gs)
        return out

    def call_local(self, st, body_id, args, gs):
        body = self.facts.bodies.get(body_id)
        if body is None:
            raise Unproven('no MIR for local body %s' % body_id)
        return self.exec_fn(st, body, args, gs)

    def exec_fn(self, st, body, args, gs):
        if st.depth > 30:
            raise Unproven('inlining depth exceeded')
        fid = st.depth
        st.depth += 1
        st.frames[fid] = {i + 1: a for i, a in enumerate(args)}
        st.fmeta[fid] = (body.id, gs)
        self.chain.append(body.id)
        saved_span = self.cur_span
        cur0 = None
        if body.name == 'next' and body.impl and body.impl.get('trait') == ITER_TRAIT and args and args[0][0] == 'ref' \
                and args[0][2][0] in ('L', 'O'):
            # next() of a hand-written cursor handle (struct { slots, next }): what a slice iterator's next() would
            # have put into the path log -- the advance / the exhaustion -- is recorded from the cursor before and after
            try:
                self.view_zone = st.zone
                cv = self.cursor_view(self.load(st, args[0][2]))
            except Unproven:
                cv = None
            if cv is not None:
                cur0 = (args[0][2], cv[1], cv[2], cv[3])
        own0 = None
        if getattr(self, 'track_ownnext', False) and body.name == 'next' and body.impl \
                and body.impl.get('trait') == ITER_TRAIT and args and args[0][0] == 'ref' and args[0][2][0] in ('L', 'O') \
                and len(self.chain) == 2:
            # Debug of a lazy iterator written as a loop over a copy of itself: each step of that copy through the
            # crate's own next() is put into the path log (is the copy faithful? what did the step yield?)
            same = None
            try:
                ent = getattr(self, 'root_entry', None)
                v = self.load(st, args[0][2], quiet=True)
                v0 = ent[0][0] if ent and ent[0] else None
                d = 0
                while v0 is not None and v0[0] == 'ref' and d < 4:
                    v0 = self.load(ent[1], v0[2], quiet=True)
                    d += 1
                from .specs import val_eq_z
                same = bool(v0 is not None and val_eq_z(st.zone, v, v0))
            except Exception:
                same = None
            own0 = args[0][2]
            st.log('own-next', own0, same)
            if not any(n[0] == 'own-first' and n[1] == own0 for n in st.notes):
                # (kept in the state, not in the log: the log of a path is exact only behind its last loop head)
                st.notes = st.notes + (('own-first', own0, same),)
        try:
            results = self.run_cfg(st, body, fid)
        finally:
            self.chain.pop()
            self.cur_span = saved_span
        if own0 is not None:
            for kind, s, v in results:
                if kind == 'ret' and isinstance(v, tuple) and v and v[0] == 'adt' and v[1] == OPTION:
                    s.log('own-yield', own0, self.rtag(s, v[3][0]) if v[2] == 1 else None)
                    if v[2] == 1:
                        self.ghost_bump(s, ('ownyield',))
        if cur0 is not None:
            for kind, s, v in results:
                if kind != 'ret' or not (isinstance(v, tuple) and v and v[0] == 'adt' and v[1] == OPTION):
                    continue
                try:
                    self.view_zone = s.zone
                    cv = self.cursor_view(self.load(s, cur0[0]))
                except Unproven:
                    cv = None
                if cv is None or cv[1] != cur0[1]:
                    continue
                if v[2] == 1 and s.zone.entails_eq(cv[2], cur0[2], 1):
                    s.log('adv', cur0[1], cur0[2], 'front')
                    if getattr(self, 'track_adv', False):
                        self.ghost_bump(s, ('adv', cur0[1]))
                elif v[2] == 0 and s.zone.entails_le(cur0[3], cur0[2]) and s.zone.entails_eq(cv[2], cur0[2]):
                    s.log('cursor-end', cur0[1])
        out = []
        for kind, s, v in results:
            self.abandoned_mu(s, s.frames.get(fid, {}), kind, body)
            if s.aux:
                slots.aux_drop(s, lambda q: (q[0] == 'loc' and q[1] == fid) or (q[0] in ('rs', 're') and q[1][0] == 'L' and q[1][1] == fid))
            s.frames.pop(fid, None)
            s.fmeta.pop(fid, None)
            s.depth = fid
            out.append((kind, s, v))
        return out

    def abandoned_mu(self, st, frame, kind, body):
        """a value that was wrapped with MaybeUninit::new(..) but never reached a slot is never destroyed:
        when the panic is the container's own (rejected insertion) the rejected objects must be destroyed once"""
        for l, v in frame.items():
            if isinstance(v, tuple) and v and v[0] == 'mu_init' and isinstance(l, int) and l != 0:
                origin = [e for e in st.events if e and e[0] == 'panic']
                own = bool(origin) and origin[-1][1] != 'user'
                if kind == 'unwind' and not own:
                    continue      # leaking on a panic raised by user code is tolerated
                self.oblig('LEAK', False, 'MaybeUninit::new(..) abandoned',
                           'a value moved into a MaybeUninit temporary in %s never reaches a slot on this path and is '
                           'never destroyed (%s)' % (short(body.id), 'after the container\'s own panic' if kind == 'unwind'
                                                     else 'normal return'),
                           'refuted', props=['C02', 'C03'] if kind == 'unwind' else ['C02'])

    def unwind_targets(self, body):
        t = getattr(body, '_unwind_targets', None)
        if t is None:
            t = set()
            for blk in body.blocks:
                u = blk['term'].get('unwind') or ''
                if u.startswith('cleanup:'):
                    t.add(int(u.split(':')[1]))
            body._unwind_targets = t
        return t

    def run_cfg(self, st, body, fid):
        heads = body.loop_heads()
        lbodies = body.loop_bodies() if heads else {}
        utargets = self.unwind_targets(body)
        useen = {}
        table = {}
        results = []
        work = [(0, st)]
        while work:
            # straight-line work first; loop heads only when nothing else is pending, and then
            # all states waiting at the same head are joined before the body is explored again
            pick = None
            for i in range(len(work) - 1, -1, -1):
                if work[i][0] not in heads:
                    pick = i
                    break
            if pick is None:
                hb = work[-1][0]
                batch = [w[1] for w in work if w[0] == hb]
                work = [w for w in work if w[0] != hb]
                live_in, borrowed = body.liveness()
                for s in batch:
                    fr = s.frames[fid]
                    for l in [l for l in fr if l >= 0 and l > body.arg_count and l not in live_in[hb]
                              and l not in borrowed]:
                        del fr[l]
                survivors = self.join_all(table, (fid, hb), batch)
                if not survivors:
                    continue
                for s in survivors[1:]:
                    work.append((-1 - hb, s))     # negative: already joined, continue into the body
                bi, s = hb, survivors[0]
            else:
                bi, s = work.pop(pick)
                if bi < 0:
                    bi = -1 - bi
                elif s.unwinding and bi in utargets:
                    # landing pad: an unwinding state that an earlier one at the same pad subsumes
                    # (same shape, stronger-or-equal zone, same kind of panic) has nothing new to show
                    origin = [e for e in s.events if e and e[0] == 'panic']
                    kind = origin[-1][1] if origin else '?'
                    ev = s.events
                    shape, s = self.canonicalise(s, 'u%s_%d' % (fid, bi))
                    s.events = ev
                    seen = useen.setdefault((bi, kind), {}).setdefault(shape, [])
                    if any(s.zone.leq(z0) for z0 in seen):
                        self.stats['unwind_subsumed'] += 1
                        continue
                    seen.append(s.zone.copy())
            self.stats['blocks'] += 1
            if self.stats['blocks'] > MAX_STEPS:
                raise Budget()
            if s.loops and heads:
                # leaving a loop of this activation ends it (and whatever was nested in it)
                for i, k in enumerate(s.loops):
                    if len(k) == 2 and k[0] == fid and k[1] in lbodies and bi not in lbodies[k[1]]:
                        s.loops = s.loops[:i]
                        break
            self.in_unwind = s.unwinding
            blk = body.blocks[bi]
            states = [s]
            try:
                for stmt in blk['stmts']:
                    nxt = []
                    for s1 in states:
                        nxt.extend(self.exec_stmt(s1, fid, body, stmt))
                    states = nxt
                for s1 in states:
                    for r in self.exec_term(s1, fid, body, blk['term']):
                        if r[0] == 'goto':
                            work.append((r[1], r[2]))
                        else:
                            if r[1].loops and heads:
                                self.end_loops(r[1], lambda k: len(k) == 2 and k[0] == fid and k[1] in lbodies)
                            results.append(r)
            except Unproven as e:
                self.violate('SHAPE', 'unproven', 'interpreter', str(e))
            except Pruned:
                pass
        return results

    def exec_stmt(self, st, fid, body, stmt):
        k = stmt['k']
        if k == 'assign':
            self.cur_span = stmt.get('span') or self.cur_span
            out = []
            src_local = None
            u = stmt['rv'].get('use') if isinstance(stmt['rv'], dict) else None
            if isinstance(u, dict) and not stmt['place']['proj']:
                q = u.get('copy') or u.get('move')
                if isinstance(q, dict) and not q.get('proj'):
                    src_local = q['local']
            for s, v in self.eval_rvalue(st, fid, stmt['rv']):
                ptr = self.eval_place(s, fid, stmt['place'])
                if src_local is not None and v[0] == 'int':
                    # (a temporary that is a plain copy of a local: differences are tracked per user local)
                    s.loadcache[('alias', fid, stmt['place']['local'])] = (src_local, v)
                else:
                    s.loadcache.pop(('alias', fid, stmt['place']['local']), None)
                if 'repeat' in stmt['rv'] and v[0] == 'oarr' and not stmt['place']['proj']:
                    # an array built in place ([x; n]): it gets an identity of its own (the place it is built in)
                    v = ('oarr', ('rep', fid, stmt['place']['local']), v[2])
                    s.arrinv.pop(v[1], None)
                    s.ghost.pop(('arrfill', v[1]), None)
                if v[0] == 'opq' and not stmt['place']['proj']:
                    # an opaque value (e.g. an element loaded from a local array of plain data) stored into a
                    # local of a plain-data type: from here on it is an unknown value OF THAT TYPE
                    ty = body.locals[stmt['place']['local']]['ty']
                    if plain_data(ty):
                        tg = v[1] if isinstance(v[1], tuple) else (v[1],)
                        ck = tg if (len(tg) >= 3 and tg[0] == 'elem' and isinstance(tg[1], tuple) and tg[1][:1] == ('rep',)) else None
                        if ck is not None and ck in s.loadcache:
                            v = s.loadcache[ck]        # the same element, not written in between: the same value
                        else:
                            v = self.mk_unknown(s, ty, tg, self.gs_of(s, fid))
                            if ck is not None and v[0] == 'int':
                                s.loadcache[ck] = v
                        self.note_loaded(s, tg, v)
                out.extend(self.store(s, ptr, v))
            return out
        if k == 'dead':
            v = st.frames[fid].get(stmt['local'])
            if isinstance(v, tuple) and v and v[0] == 'mu_init':
                self.abandoned_mu(st, {stmt['local']: v}, 'unwind' if st.unwinding else 'ret', body)
            st.frames[fid].pop(stmt['local'], None)
            return [st]
        if k == 'live':
            return [st]
        if k == 'setdiscr':
            raise Unproven('SetDiscriminant')
        if k == 'intrinsic':
            return [st]
        raise Unproven('statement %s' % k)

    def unwind_to(self, st, action):
        """continue an unwinding state according to the terminator's unwind action"""
        if action == 'continue':
            return [('unwind', st, None)]
        if action.startswith('cleanup:'):
            return [('goto', int(action.split(':')[1]), st)]
        return []   # unreachable / terminate (abort)

    def exec_term(self, st, fid, body, t):
        k = t['k']
        if k == 'goto':
            return [('goto', t['target'], st)]
        if k == 'return':
            v = st.frames[fid].get(0, UNIT)
            return [('ret', st, v)]
        if k in ('unreachable', 'terminate'):
            return []
        if k == 'resume':
            return [('unwind', st, None)]
        if k == 'switch':
            return self.exec_switch(st, fid, t)
        if k == 'assert':
            self.cur_span = t.get('span') or self.cur_span
            c = self.eval_operand(st, fid, t['cond'])
            exp = t['expected']
            out = []
            ok_st, bad_st = self.split_bool(st, c, exp)
            if ok_st is not None:
                out.append(('goto', t['target'], ok_st))
            if bad_st is not None and not bad_st.unwinding:
                bad_st.unwinding = True
                bad_st.log('panic', 'assert:' + t['msg'], short(body.id), self.panic_just(bad_st))
                self.stats['escapes'] += 1
                out.extend(self.unwind_to(bad_st, t['unwind']))
            return out
        if k == 'call':
            self.cur_span = t.get('span') or self.cur_span
            out = []
            for kind, s, v in self.do_call(st, fid, body, t):
                if kind == 'ret':
                    if t['target'] is None:
                        continue
                    ptr = self.eval_place(s, fid, t['dest'])
                    for s2 in self.store(s, ptr, v):
                        out.append(('goto', t['target'], s2))
                else:
                    out.extend(self.unwind_to(s, t['unwind']))
            return out
        if k == 'drop':
            self.cur_span = t.get('span') or self.cur_span
            out = []
            ptr = self.eval_place(st, fid, t['place'])
            v = self.load(st, ptr)
            for kind, s in self.drop_value(st, v, t['effects']):
                if ptr[0] in ('L', 'O'):
                    # (a caller-owned place that held a container remembers which: `*place = new value` next)
                    self.store(s, ptr, ('moved', v) if (ptr[0] == 'O' and v[0] != 'moved' and self.byvalue_maps(v)) else MOVED)
                if kind == 'ret':
                    out.append(('goto', t['target'], s))
                else:
                    out.extend(self.unwind_to(s, t['unwind']))
            return out
        raise Unproven('terminator %s' % k)

    def split_bool(self, st, c, want):
        """-> (state where c == want or None, state where c != want or None)"""
        if c[0] == 'bool':
            return (st, None) if c[1] == want else (None, st)
        if c[0] == 'boolc':
            a = st.fork()
            ok_a = self.assume_cond(a, c[1], want)
            b = st
            ok_b = self.assume_cond(b, c[1], not want)
            if ok_a and ok_b and c[1][0] in ('Eq', 'Ne', 'Lt', 'Le', 'Gt', 'Ge', 'Not'):
                # a genuine branch on an integer comparison: remember which way this path went
                a.log('cond', c[1], want)
                b.log('cond', c[1], not want)
                cc = c[1]
                if len(cc) == 3 and len(st.guards) < 3 and all(
                        isinstance(x, int) or (isinstance(x, Term) and is_persistent(x)) for x in cc[1:]) \
                        and any(isinstance(x, Term) for x in cc[1:]):
                    # a case split on the entry state itself (argument vs entry len, ...): the two cases are
                    # analysed apart from here on (part of the abstract shape), so that what each of them
                    # implies is not blurred at the next loop head
                    a.guards = a.guards + ((cc, want),)
                    b.guards = b.guards + ((cc, not want),)
            return (a if ok_a else None, b if ok_b else None)
        a = st.fork()
        tag = c[1] if c[0] == 'boolu' else ('?',)
        a.log('assume', tag, want)
        st.log('assume', tag, not want)
        self.note_answer(a, tag, want)
        self.note_answer(st, tag, not want)
        return a, st

    def exec_switch(self, st, fid, t):
        d = self.eval_operand(st, fid, t['discr'])
        targets = [(int(v), bb) for v, bb in t['targets']]
        other = t['otherwise']
        isbool = t['discr_ty'].get('k') == 'prim' and t['discr_ty']['name'] == 'bool'
        if isbool or d[0] in ('bool', 'boolc', 'boolu'):
            # targets: usually [(0, bb_false)] otherwise bb_true
            tmap = dict(targets)
            f_bb = tmap.get(0, other)
            t_bb = tmap.get(1, other)
            a, b = self.split_bool(st, d, True)
            out = []
            if a is not None:
                out.append(('goto', t_bb, a))
            if b is not None:
                out.append(('goto', f_bb, b))
            return out
        if d[0] == 'int':
            x = d[1]
            if isinstance(x, int):
                for v, bb in targets:
                    if v == x:
                        return [('goto', bb, st)]
                return [('goto', other, st)]
            out = []
            z = st.zone
            for v, bb in targets:
                if z.entails_eq(x, v):
                    return [('goto', bb, st)]
            rest = st
            for v, bb in targets:
                s = rest.fork()
                s.zone.add_eq(x, v)
                if s.zone.sat:
                    out.append(('goto', bb, s))
                self.assume_cond(rest, ('Ne', x, v), True)
            if rest.zone.sat:
                out.append(('goto', other, rest))
            return out
        # opaque discriminant: every target is possible
        out = []
        for v, bb in targets:
            out.append(('goto', bb, st.fork()))
        out.append(('goto', other, st))
        return out

    # ------------------------------------------------------------------ calls
    def do_call(self, st, fid, body, t):
        callee = t['callee']
        args = [self.eval_operand(st, fid, o) for o in t['operands']]
        dl = t['dest']
        dest_ty = body.locals[dl['local']]['ty'] if not dl['proj'] else None
        lb = callee.get('local_body')
        if lb:
            b2 = self.facts.bodies[lb]
            gs2 = self.callee_gs(st, fid, callee, b2)
            return self.call_local(st, lb, args, gs2)
        name = callee.get('rdef') or callee['def']
        m = self.models.get(name)
        if m is None and callee['resolved'] == 'unresolved':
            m = self.models.get('?' + callee['def'])
        if m is None and callee.get('rcrate') == 'core' and callee.get('trait') == ITER_TRAIT \
                and (name.startswith('<core::slice::iter::Iter')
                     or (callee.get('rimpl_self') or {}).get('path') in self.models_mod.ADAPTER_NEXT):
            # core's slice iterators override provided Iterator methods with equivalent specialisations
            m = self.models.get(callee['def'])
        if m is not None:
            self.stats['model_calls'] += 1
            return m(self, st, fid, t, args, dest_ty)
        if callee.get('trait') in FN_TRAITS and args:
            f = args[0]
            if f[0] == 'ref' and f[2][0] in ('L', 'O'):
                try:
                    f = self.load(st, f[2])
                except Unproven:
                    f = args[0]
            if f[0] == 'fn':
                # calling a function item through the Fn* traits is calling that function
                rest = list(args[1][1]) if len(args) > 1 and args[1][0] == 'tuple' else list(args[1:])
                return self.call_fn_value(st, f, rest, fid, t, dest_ty)
            if f[0] == 'closure' and f[1] in self.facts.bodies:
                # a generic callable that is, in this inlining context, a closure of the crate: run its body
                rest = list(args[1][1]) if len(args) > 1 and args[1][0] == 'tuple' else list(args[1:])
                return self.call_at(st, self.closure_cell(st, args[0]), rest, fid)
        if callee['resolved'] == 'unresolved':
            r = self.dispatch_by_value(st, fid, t, args, dest_ty)
            if r is not None:
                return r
            return self.user_call(st, fid, t, args, dest_ty)
        return self.opaque_call(st, fid, t, args, dest_ty)

    def dispatch_by_value(self, st, fid, t, args, dest_ty):
        """a trait-method call that is unresolved in the (generic) MIR of an inlined callee, but
        whose receiver is, in this inlining context, a value of a known type"""
        callee = t['callee']
        tr = callee.get('trait')
        nm = callee['name']
        if not args:
            return None
        recv = args[0]
        target = recv
        byref = False
        if recv[0] == 'ref' and recv[2][0] in ('L', 'O'):
            try:
                target = self.load(st, recv[2])
                byref = True
            except Unproven:
                return None
        if target[0] == 'oarr' and not byref and tr == 'core::iter::traits::collect::IntoIterator' and nm == 'into_iter':
            m = self.models.get('core::array::iter::<impl core::iter::traits::collect::IntoIterator for [T; N]>::into_iter')
            if m is not None:
                return m(self, st, fid, t, args, dest_ty)
        if target[0] == 'opqit' and len(target) == 5 and tr == ITER_TRAIT:
            # a tracked iterator over an array of user data
            if nm == 'next' and byref:
                ity = dest_ty['args'][0] if (dest_ty and dest_ty.get('k') == 'adt' and dest_ty['args']) else None
                return self.iter_next(st, recv[2], fid, ity)
            m = self.models.get(ITER_TRAIT + '::' + nm)
            if m is not None:
                t2 = dict(t)
                t2['callee'] = dict(callee, resolved='item')
                return m(self, st, fid, t2, args, dest_ty)
        if target[0] == 'opqit' and len(target) == 5 and not byref and tr == 'core::iter::traits::collect::IntoIterator' \
                and nm == 'into_iter':
            return [('ret', st, recv)]
        if tr == ITER_TRAIT and nm == 'map' and not byref and len(args) == 2 and args[1][0] == 'closure' \
                and target[0] in ('opq', 'unk'):
            # `source.map(<closure of the crate>)` on an iterator of user data: the lazy adaptor of core (as for
            # `copied()` / `cloned()`, a provided method of Iterator is taken to be the provided one)
            m = self.models.get(ITER_TRAIT + '::map')
            if m is not None:
                return m(self, st, fid, t, args, dest_ty)
        path = None
        if target[0] == 'adt':
            path = target[1]
        elif target[0] == 'map':
            path = st.maps[target[1]].name
        elif target[0] == 'sliceit':
            path = SLICE_ITERMUT if target[4] else SLICE_ITER
        if path is None:
            return None
        is_iter = (path in self.models_mod.ADAPTER_NEXT or (ITER_TRAIT, path, 'next') in self.impl_index
                   or target[0] == 'sliceit')
        if tr == 'core::iter::traits::collect::IntoIterator' and nm == 'into_iter':
            if is_iter and not byref:
                return [('ret', st, recv)]
            key = (tr, ('&' + path) if byref else path, 'into_iter')
            bid = self.impl_index.get(key)
            if bid is not None:
                body = self.facts.bodies[bid]
                return self.call_local(st, bid, args, self.gs_from_value(st, target, body))
            return None
        if tr == ITER_TRAIT and nm == 'next' and byref and is_iter:
            ity = None
            if dest_ty and dest_ty.get('k') == 'adt' and dest_ty['args']:
                ity = dest_ty['args'][0]
            return self.iter_next(st, recv[2], fid, ity)
        if tr == ITER_TRAIT and is_iter:
            m = self.models.get(ITER_TRAIT + '::' + nm)
            if m is not None:
                t2 = dict(t)
                t2['callee'] = dict(callee, resolved='item')
                return m(self, st, fid, t2, args, dest_ty)
        bid = self.impl_index.get((tr, ('&' + path) if byref and (tr, '&' + path, nm) in self.impl_index else path, nm))
        if bid is not None and tr is not None:
            body = self.facts.bodies[bid]
            return self.call_local(st, bid, args, self.gs_from_value(st, target, body))
        return None

    def gs_of(self, st, fid):
        return st.fmeta[fid][1] if fid in st.fmeta else {}

    def sensitive(self, st, v, depth=0):
        """does the value give access to raw slot storage (not just to initialised contents)?"""
        if not isinstance(v, tuple) or not v or depth > 6:
            return False
        h = v[0]
        if h in ('sliceit', 'mu_val', 'pairs_val', 'slice_val', 'rawslot', 'rawbase'):
            return True
        if h == 'map':
            return depth > 0
        if h == 'ref':
            p = v[2]
            if p[0] in ('mu', 'pairs', 'slice', 'len'):
                return True
            if p[0] in ('O', 'L'):
                try:
                    return self.sensitive(st, self.load(st, p), depth + 1)
                except Unproven:
                    return False
            return False
        if h in ('tuple',):
            return any(self.sensitive(st, x, depth + 1) for x in v[1])
        if h == 'adt':
            return any(self.sensitive(st, x, depth + 1) for x in v[3])
        return False

    def find_closures(self, st, v, acc, depth=0):
        if not isinstance(v, tuple) or not v or depth > 4:
            return
        if v[0] == 'closure':
            acc.append(v)
        elif v[0] == 'tuple':
            for x in v[1]:
                self.find_closures(st, x, acc, depth + 1)
        elif v[0] == 'adt':
            for x in v[3]:
                self.find_closures(st, x, acc, depth + 1)

    def havoc_mut_refs(self, st, args):
        """user code that receives &mut to the contents of a slot may replace the value"""
        for a in args:
            if a[0] == 'ref' and a[1] and a[2][0] == 'pair':
                mid, idx, sub = a[2][1], a[2][2], a[2][3]
                if tuple(sub) in ((), (0,)):
                    # a stored KEY (or the whole pair) is handed to user code by mutable reference: the
                    # uniqueness discipline rests on stored keys never changing in place
                    self.oblig('KEYMUT', False, 'user code gets &mut to a stored key',
                               'a mutable reference to the key of slot %s of %s is passed to user code: stored keys '
                               'must only ever be replaced as a whole by a key that compared equal' % (idx, mid),
                               'refuted', props=['C05'])
                kt, vt = slots.content(st, mid, idx)
                if sub == (1,):
                    slots.set_content(st, mid, idx, (kt, ('usermod', vt)), same_element=True)
                elif sub == (0,):
                    slots.set_content(st, mid, idx, (('usermod', kt), vt), same_element=True)
                else:
                    slots.set_content(st, mid, idx, (('usermod', kt), ('usermod', vt)), same_element=True)
            elif a[0] == 'tuple':
                self.havoc_mut_refs(st, a[1])

    def may_unwind(self, eff):
        return bool(eff.get('unwind') or eff.get('user') or eff.get('dyn') or eff.get('opaque')
                    or eff.get('errors'))

    def plain_eq(self, st, a, b, depth=0):
        """structural == of two plain-data values -> TRUE / FALSE / ('boolc', cond) / None (not plain data, or not
        expressible as one condition)"""
        for _ in range(4):
            if a[0] == 'ref' and a[2][0] in ('L', 'O'):
                a = self.load(st, a[2], quiet=True)
            if b[0] == 'ref' and b[2][0] in ('L', 'O'):
                b = self.load(st, b[2], quiet=True)
        if depth > 4:
            return None
        if a[0] in ('int', 'slen') and b[0] in ('int', 'slen'):
            r = self.compare(st, 'Eq', a, b)
            if r[0] == 'boolc':
                d = self.decide(st, r[1])       # (the length of the very same range, equal terms)
                if d is not None:
                    return TRUE if d else FALSE
            return r if r[0] in ('bool', 'boolc') else None
        if a[0] == 'adt' and b[0] == 'adt' and a[1] == b[1] == OPTION:
            if a[2] != b[2]:
                return FALSE
            if a[2] == 0:
                return TRUE
            return self.plain_eq(st, a[3][0], b[3][0], depth + 1)
        if a[0] == 'tuple' and b[0] == 'tuple' and len(a[1]) == len(b[1]):
            parts = [self.plain_eq(st, x, y, depth + 1) for x, y in zip(a[1], b[1])]
            if any(p is None for p in parts):
                return None
            if any(p == FALSE for p in parts):
                return FALSE
            open_ = [p for p in parts if p != TRUE]
            if not open_:
                return TRUE
            if len(open_) == 1:
                return open_[0]
            return None
        return None

    def user_call(self, st, fid, t, args, dest_ty, name=None):
        """a call into user code: arbitrary result, may unwind, may call back closures it was given"""
        callee = t['callee']
        nm = name or callee.get('s') or callee['def']
        eff = t['effects']
        if callee['def'] in ('core::cmp::PartialEq::eq', 'core::cmp::PartialEq::ne') and len(args) == 2:
            # `==` between plain data (integers, lengths, Options and tuples of them: size hints, indices) is core's
            # own structural comparison, not user code
            r = self.plain_eq(st, args[0], args[1])
            if r is not None:
                if callee['def'].endswith('::ne'):
                    r = FALSE if r == TRUE else (TRUE if r == FALSE else ('boolc', ('Not', r[1])))
                return [('ret', st, r)]
        if any(self.sensitive(st, a) for a in args):
            self.check_exposed(st, args, nm)
        cls = []
        for a in args:
            self.find_closures(st, a, cls)
        rtags = tuple(self.rtag(st, a) for a in args)
        st.log('user', callee['def'], rtags)
        self.stats['user_calls'] += 1
        if getattr(self, 'track_fmt', False) and rtags and callee['def'].startswith('core::fmt::') and callee['def'].endswith('::fmt'):
            self.fmt_note(st, rtags[0])      # the element's own Display / Debug code is called directly
        if getattr(self, 'track_ser', False) and callee['def'].rsplit('::', 1)[-1] in (
                'serialize_entry', 'serialize_element', 'serialize_key', 'serialize_value'):
            # (C20) which stored elements reach the serializer: the same run-of-slots bookkeeping as for rendering
            for rt in rtags[1:]:
                self.fmt_note(st, rt)
        if callee.get('trait') in FN_TRAITS:
            self.note_asked(st, args[1:])
            if getattr(self, 'track_adv', False):
                self.ghost_bump(st, ('calls',))
        self.havoc_mut_refs(st, args)
        self.give_away(st, args, nm)
        out = []
        gs = self.gs_of(st, fid)
        if cls:
            # the user code may invoke the closures any number of times, at any moment
            states = self.models_mod.callback_loop(self, st, fid, cls, ('usercb', short(self.chain[-1])))
        else:
            states = [('ret', st, None)]
        for kind, s, _ in states:
            if kind == 'unwind':
                out.append(('unwind', s, None))
                continue
            if not s.unwinding:
                u = s.fork()
                u.unwinding = True
                u.log('panic', 'user', nm)
                self.stats['escapes'] += 1
                out.append(('unwind', u, None))
            val = self.mk_unknown(s, dest_ty, ('u', callee['def'], rtags), gs)
            out.append(('ret', s, val))
        return out

    @staticmethod
    def ghost_bump(st, key):
        g = st.ghost.get(key)
        t = g[0] if g is not None else 0
        st.ghost[key] = (slots.plus(st, t, 1), ())

    def fmt_note(self, st, tag):
        """a value is handed to the formatter (roots whose rendering is tracked, C19): when it is (part of) a stored
        element, the run of rendered slots and the per-projection counters in the abstract state are updated"""
        if getattr(self, 'track_ownnext', False):
            self.ghost_bump(st, ('ownfmt',))       # (counted against the items the stepped copy yielded)
        if not getattr(self, 'track_fmt', False):
            return
        found = []

        def walk(t, d=0):
            if isinstance(t, tuple) and d < 8:
                if len(t) == 4 and t[0] in ('slot', 'pair') and isinstance(t[1], str) and isinstance(t[3], (tuple, list)):
                    found.append(t)
                    return
                for x in t:
                    walk(x, d + 1)
        walk(tag)
        for t in found[:2]:
            mid, idx, sub = t[1], t[2], tuple(t[3])
            if mid not in st.maps:
                continue
            k0, k1, kb, kl = ('span0', mid), ('span1', mid), ('spanbad', mid), ('spanlen', mid)
            g0, g1 = st.ghost.get(k0), st.ghost.get(k1)
            z = st.zone
            if g0 is None or g1 is None:
                st.ghost[k0] = (idx, ())
                st.ghost[k1] = (slots.plus(st, idx, 1), ())
                self.ghost_bump(st, kl)
            elif z.entails_eq(g1[0], idx, 1) or z.entails_eq(g0[0], idx):
                pass                                    # (another part of the element rendered last, at either end)
            elif z.entails_eq(idx, g1[0]):
                st.ghost[k1] = (slots.plus(st, idx, 1), ())
                self.ghost_bump(st, kl)
            elif z.entails_eq(g0[0], idx, 1):
                st.ghost[k0] = (idx, ())
                st.ghost[('spandown', mid)] = (0, ())
                self.ghost_bump(st, kl)
            else:
                st.ghost[kb] = (0, ())
            self.ghost_bump(st, ('fmtn', mid, sub[:1]))

    def note_asked(self, st, args):
        """a user callable is called with a reference to a stored element: where that is tracked (retain), it
        must be the first such call for the element"""
        for a in args:
            if a[0] == 'tuple':
                self.note_asked(st, a[1])
            elif a[0] == 'ref' and a[2][0] == 'pair' and tuple(a[2][3]) in ((), (0,)):
                mid, idx = a[2][1], a[2][2]
                ms = st.maps.get(mid)
                if ms is None or ms.asked is None:
                    continue
                r = slots.asked_possible(st, ms, idx)
                self.oblig('ASKED-ONCE', r is None, 'user callable',
                           'the user callable is called for slot %s of %s, which may hold an element it was already '
                           'called for (asked before: slots [%s,%s))' % ((idx, mid) + (r or (0, 0))), 'refuted',
                           props=sorted(getattr(self, 'asked_props', ()) or ()), sample='slot %s not asked before' % (idx,))
                slots.asked_add(st, ms, idx)

    def give_away(self, st, args, nm):
        """containers passed by value to user code: they must be well-formed at that moment"""
        for a in args:
            for v in self.byvalue_maps(a):
                ms = st.maps[v]
                if ms.dead:
                    continue
                probs = slots.inv_problems(st, v)
                self.oblig('INV', not probs, 'pass-to-user',
                           '; '.join('%s: %s' % p for p in probs) + ' [%s]' % ms.describe(), 'refuted',
                           sample='%s %s' % (v, ms.describe()))
                ms.dead = True

    def byvalue_maps(self, v, depth=0, acc=None):
        if acc is None:
            acc = []
        if isinstance(v, tuple) and v and depth < 8:
            if v[0] == 'map':
                acc.append(v[1])
            elif v[0] == 'adt':
                for x in v[3]:
                    self.byvalue_maps(x, depth + 1, acc)
            elif v[0] == 'tuple':
                for x in v[1]:
                    self.byvalue_maps(x, depth + 1, acc)
        return acc

    def check_exposed(self, st, args, nm):
        """raw slot storage handed to code that has no model: fail closed"""
        self.unmodelled[nm] += 1
        self.violate('MODEL', 'unmodelled', nm,
                     'a reference to raw slot storage (or a container) is passed to a function without a model')

    def opaque_call(self, st, fid, t, args, dest_ty):
        callee = t['callee']
        nm = callee.get('rdef') or callee['def']
        eff = t['effects']
        self.stats['opaque_calls'] += 1
        self.unmodelled['opaque:' + nm] += 0
        otags = tuple(self.tag_of(a) for a in args)
        st.log('opaque', nm, otags)
        if any(self.sensitive(st, a) for a in args):
            self.check_exposed(st, args, nm)
        cls = []
        for a in args:
            self.find_closures(st, a, cls)
        self.havoc_mut_refs(st, args)
        gs = self.gs_of(st, fid)
        if cls:
            states = self.models_mod.callback_loop(self, st, fid, cls, ('opaquecb', short(self.chain[-1])))
        else:
            states = [('ret', st, None)]
        out = []
        for kind, s, _ in states:
            if kind == 'unwind':
                out.append(('unwind', s, None))
                continue
            if self.may_unwind(eff) and not s.unwinding:
                # whose panic it is: a core function that runs user code inside (the Clone shim of a tuple, the
                # default clone_from, a formatting helper that calls through dyn) may unwind because that user
                # code panicked -- an escape of the user's (C04), not a panic of the crate's own
                usr = bool(eff.get('user') or eff.get('dyn') or eff.get('opaque'))
                own = bool(eff.get('unwind') or eff.get('errors')) or not usr
                if usr:
                    u = s.fork()
                    u.unwinding = True
                    u.log('panic', 'user', nm)
                    self.stats['escapes'] += 1
                    out.append(('unwind', u, None))
                if own:
                    u = s.fork()
                    u.unwinding = True
                    u.log('panic', 'core', nm, self.panic_just(u))
                    self.stats['escapes'] += 1
                    out.append(('unwind', u, None))
            diverges = dest_ty is not None and dest_ty.get('k') == 'never'
            if diverges:
                continue
            val = self.mk_unknown(s, dest_ty, ('c', nm, otags), gs)
            out.append(('ret', s, val))
        return out

    # closures ---------------------------------------------------------------------------
    def closure_cell(self, st, f):
        """store a callable in a heap cell so that it can be passed by reference"""
        if f[0] == 'ref':
            return f[2]
        oid = st.new_id('o')
        st.objs[oid] = f
        return ('O', oid, ())

    def call_at(self, st, cell, args, fid):
        """call the callable stored at pointer `cell` with positional args"""
        f = self.load(st, cell)
        while f[0] == 'ref':
            cell = f[2]
            f = self.load(st, cell)
        if f[0] == 'closure':
            body = self.facts.bodies.get(f[1])
            if body is None:
                raise Unproven('closure body %s missing' % f[1])
            gs = dict(f[3])
            envty = body.locals[1]['ty']
            if envty.get('k') == 'ref':
                env = ('ref', envty['mut'], cell)
            else:
                env = f
            return self.exec_fn(st, body, [env] + list(args), gs)
        if f[0] == 'fn':
            return self.call_fn_value(st, f, args, fid)
        # opaque user callable
        st.log('user', 'call', tuple(self.tag_of(a) for a in args))
        self.stats['user_calls'] += 1
        self.note_asked(st, args)
        if getattr(self, 'track_adv', False):
            self.ghost_bump(st, ('calls',))
        self.havoc_mut_refs(st, args)
        out = []
        if not st.unwinding:
            u = st.fork()
            u.unwinding = True
            u.log('panic', 'user', 'callback')
            self.stats['escapes'] += 1
            out.append(('unwind', u, None))
        out.append(('ret', st, ('opq', ('u', 'call', tuple(self.tag_of(a) for a in args)))))
        return out

    def call_fn_value(self, st, f, args, fid, t=None, dest_ty=None):
        ty = f[2]
        lb = self.facts.bodies.get(ty['def'])
        if lb is not None:
            return self.call_local(st, lb.id, list(args), {})
        # a function that is not part of the crate (e.g. `V::default` handed over as a callable):
        # user code -- arbitrary result, may unwind
        rtags = tuple(self.rtag(st, a) for a in args)
        st.log('user', ty['def'], rtags)
        self.stats['user_calls'] += 1
        self.havoc_mut_refs(st, args)
        out = []
        if not st.unwinding:
            u = st.fork()
            u.unwinding = True
            u.log('panic', 'user', ty['def'])
            self.stats['escapes'] += 1
            out.append(('unwind', u, None))
        val = self.mk_unknown(st, dest_ty, ('u', ty['def'], rtags), self.gs_of(st, fid)) if dest_ty is not None \
            else ('opq', ('u', ty['def'], rtags))
        out.append(('ret', st, val))
        return out

    # drops --------------------------------------------------------------------------------
    def drop_value(self, st, v, eff, depth=0):
        """-> list of (kind, state)"""
        h = v[0]
        if h in ('moved', 'int', 'bool', 'boolc', 'boolu', 'ref', 'slen', 'sliceit', 'closure', 'fn', 'rawslot', 'rawbase', 'mu_copy',
                 'oarr', 'oslice', 'opqit', 'mu_uninit', 'uninit_arr', 'arr_of'):
            if h == 'closure':
                return self.drop_fields(st, list(v[2]), eff, depth)
            if h in ('oarr', 'oslice') and eff.get('user'):
                return self.user_drop(st, v, eff)
            return [('ret', st)]
        if h == 'map':
            return self.drop_map(st, v[1], eff)
        if h == 'tuple':
            return self.drop_fields(st, list(v[1]), eff, depth)
        if h == 'adt':
            path = v[1]
            a = self.facts.adts.get(path)
            if a is not None and a.get('has_drop'):
                return self.drop_local_adt(st, v, eff, depth)
            return self.drop_fields(st, list(v[3]), eff, depth)
        if h in ('opq', 'unk'):
            if eff.get('user'):
                return self.user_drop(st, v, eff)
            return [('ret', st)]
        return [('ret', st)]

    def user_drop(self, st, v, eff):
        st.log('drop', self.tag_of(v))
        out = []
        if not st.unwinding:
            u = st.fork()
            u.unwinding = True
            u.log('panic', 'user', 'drop')
            self.stats['escapes'] += 1
            out.append(('unwind', u))
        out.append(('ret', st))
        return out

    def drop_fields(self, st, fields, eff, depth):
        states = [('ret', st)]
        for f in fields:
            nxt = []
            for kind, s in states:
                if kind == 'unwind':
                    nxt.append((kind, s))
                    continue
                nxt.extend(self.drop_value(s, f, eff, depth + 1))
            states = nxt
        return states

    def drop_map(self, st, mid, eff):
        ms = st.maps[mid]
        if ms.dead:
            self.violate('O2', 'refuted', 'drop(Map)', 'container %s is dropped twice' % mid)
            return [('ret', st)]
        bid = None
        for (tr, sp, nm), b in self.impl_index.items():
            if tr == DROP_TRAIT and sp == ms.name and nm == 'drop':
                bid = b
        if bid is None:
            # no Drop impl: elements below len are leaked
            self.oblig('DROPIMPL', False, 'drop(Map)', 'the container type has no Drop impl: its elements leak')
            ms.dead = True
            return [('ret', st)]
        oid = st.new_id('o')
        st.objs[oid] = ('map', mid)
        ms.exempt = True
        body = self.facts.bodies[bid]
        gs = {}
        for g in body.generics:
            if g['kind'] == 'const':
                gs[g['name']] = ms.cap
        out = []
        for kind, s, _ in self.call_local(st, bid, [('ref', True, ('O', oid, ()))], gs):
            m2 = s.maps[mid]
            if kind == 'ret':
                from .roots import check_dropall
                check_dropall(self, s, mid, 'Map::drop')
            m2.dead = True
            s.objs.pop(oid, None)
            out.append((kind, s))
        return out

    def drop_local_adt(self, st, v, eff, depth):
        path = v[1]
        bid = self.impl_index.get((DROP_TRAIT, path, 'drop'))
        if bid is None:
            return self.drop_fields(st, list(v[3]), eff, depth)
        oid = st.new_id('o')
        st.objs[oid] = v
        out = []
        for kind, s, _ in self.call_local(st, bid, [('ref', True, ('O', oid, ()))], {}):
            v2 = s.objs.pop(oid, v)
            if kind == 'unwind':
                out.append((kind, s))
                continue
            # an owning handle must have destroyed everything it still owned
            self.view_zone = s.zone
            for sv in self.sliceits_in(v2):
                mid, fr, bk = sv[1], sv[2], sv[3]
                ms = s.maps[mid]
                if ms.owned_extras or (not slots.empty(s.zone, ms.extra_rng)):
                    rest_empty = slots.empty(s.zone, ms.extra_rng)     # (an exhausted cursor proves nothing)
                    if not rest_empty:
                        from . import roots as _roots
                        rest_empty = _roots.no_drop_glue(s)
                    self.oblig('HANDLE-DROP', rest_empty, short(bid),
                               'the owning handle is dropped while it still owns live elements [%s,%s): %s'
                               % (fr, bk, ms.describe()), 'unproven', sample=ms.describe())
                    ms.extra_rng = (0, 0)
                    ms.owned_extras = False
            out.extend(self.drop_fields(s, list(v2[3]) if v2[0] == 'adt' else [], eff, depth))
        return out

    def panic_just(self, st):
        """what could justify a panic of the crate's own at this moment: the containers that were scanned
        completely for a key without a match, and whether each of them is full"""
        out = []
        for mid, ms in st.maps.items():
            if ms.phantom or ms.dead:
                continue
            try:
                miss = self.miss_complete(st, mid)
            except Exception:
                miss = None
            if miss is not None:
                out.append((mid, bool(st.zone.entails_eq(ms.len, ms.cap))))
        return tuple(out)

    def cursor_struct(self, path):
        """struct { slots: &mut [MaybeUninit<_>] | &[MaybeUninit<_>], next: usize } of the crate: a hand-written
        front cursor over a slice of slots (the layout a slice iterator has, spelled out).
        Returns (slice field, cursor field, mutable)."""
        c = self._cursor_structs.get(path, 0) if hasattr(self, '_cursor_structs') else 0
        if c != 0:
            return c
        if not hasattr(self, '_cursor_structs'):
            self._cursor_structs = {}
        res = None
        a = self.facts.adts.get(path)
        if a is not None and a['kind'] == 'Struct' and a.get('local', True):
            fields = [f for f in a['variants'][0]['fields']]
            real = [(i, f) for i, f in enumerate(fields)
                    if not (f['ty'].get('k') == 'adt' and f['ty']['path'].endswith('PhantomData'))]
            if len(real) == 2:
                sl = [i for i, f in real if f['ty'].get('k') == 'ref'
                      and f['ty']['to'].get('k') == 'slice' and ty_is_mu(f['ty']['to']['elem'])]
                ix = [i for i, f in real if f['ty'].get('k') == 'prim' and f['ty']['name'] == 'usize']
                if len(sl) == 1 and len(ix) == 1:
                    res = (sl[0], ix[0], bool(fields[sl[0]]['ty']['mut']))
            elif len(real) == 1:
                # struct { rest: &[MaybeUninit<_>] }: the not-yet-yielded slots as a slice that is re-sliced on
                # every step (split_first / [1..]): its own bounds are the cursor
                i, f = real[0]
                if f['ty'].get('k') == 'ref' and f['ty']['to'].get('k') == 'slice' and ty_is_mu(f['ty']['to']['elem']):
                    res = (i, None, bool(f['ty']['mut']))
        self._cursor_structs[path] = res
        return res

    def cursor_view(self, v):
        """the slice-iterator view of a cursor struct value (None if v is not one, or its slice does not start
        at the origin of its positions)"""
        if not (isinstance(v, tuple) and v and v[0] == 'adt'):
            return None
        cs = self.cursor_struct(v[1])
        if cs is None:
            return None
        if cs[1] is None:
            r = v[3][cs[0]]
            if r[0] == 'ref' and r[2][0] == 'slice':
                return ('sliceit', r[2][1], r[2][2], r[2][3], cs[2])
            return None
        r, nx = v[3][cs[0]], v[3][cs[1]]
        if r[0] == 'ref' and r[2][0] == 'slice' and nx[0] == 'int':
            lo = r[2][2]
            z = getattr(self, 'view_zone', None)
            at_origin = (isinstance(lo, int) and not isinstance(lo, bool) and lo == 0) or \
                (isinstance(lo, Term) and z is not None and z.entails_eq(lo, 0))
            if at_origin:
                return ('sliceit', r[2][1], nx[1], r[2][3], cs[2])
        return None

    def sliceits_in(self, v, acc=None, depth=0):
        if acc is None:
            acc = []
        if isinstance(v, tuple) and v and depth < 8:
            if v[0] == 'sliceit':
                acc.append(v)
            elif v[0] == 'adt' and self.cursor_view(v) is not None:
                acc.append(self.cursor_view(v))
            elif v[0] in ('adt',):
                for x in v[3]:
                    self.sliceits_in(x, acc, depth + 1)
            elif v[0] == 'tuple':
                for x in v[1]:
                    self.sliceits_in(x, acc, depth + 1)
        return acc

    # iterators ------------------------------------------------------------------------------
    def iter_next(self, st, ptr, fid, item_ty=None):
        """advance the iterator stored at ptr: list of (kind, state, Option value)"""
        v = self.load(st, ptr)
        h = v[0]
        if h == 'ref':
            return self.iter_next(st, v[2], fid, item_ty)
        if h == 'sliceit':
            _, mid, fr, bk, mut = v
            z = st.zone
            out = []
            a = st.fork()
            a.zone.add_lt(fr, bk)
            if a.zone.sat:
                nf = slots.plus(a, fr, 1)
                self.store(a, ptr, ('sliceit', mid, nf, bk, mut))
                a.log('adv', mid, fr, 'front')
                if getattr(self, 'track_adv', False):
                    self.ghost_bump(a, ('adv', mid))
                out.append(('ret', a, some(('ref', mut, ('mu', mid, fr)))))
            st.zone.add_le(bk, fr)
            if st.zone.sat:
                st.log('cursor-end', mid)
                out.append(('ret', st, NONE))
            return out
        if h == 'adt':
            path = v[1]
            m = self.models_mod.ADAPTER_NEXT.get(path)
            if m is not None:
                return m(self, st, ptr, v, fid, item_ty)
            bid = self.impl_index.get((ITER_TRAIT, path, 'next'))
            if bid is not None:
                body = self.facts.bodies[bid]
                gs = self.gs_from_value(st, v, body)
                return self.call_local(st, bid, [('ref', True, ptr)], gs)
        if h == 'opqit' and len(v) == 5:
            # iterator over an opaque array of user data whose element positions are tracked
            _, tg, ety, pos, end = v
            out = []
            a = st.fork()
            a.zone.add_lt(pos, end)
            if a.zone.sat:
                self.store(a, ptr, ('opqit', tg, ety, slots.plus(a, pos, 1), end))
                a.log('next', ('opqit', tg), 'Some')
                if getattr(self, 'track_pull', False):
                    self.ghost_bump(a, ('pull', tg))
                cell = ('opq', ('elem', tg, pos))
                if ety is not None and ety.get('k') == 'ref':
                    item = ('ref', bool(ety.get('mut')), cell)
                else:
                    item = typed_opq(ety, ('elem', tg, pos))
                out.append(('ret', a, some(item)))
            st.zone.add_le(end, pos)
            if st.zone.sat:
                st.log('next', ('opqit', tg), 'None')
                out.append(('ret', st, NONE))
            return out
        if h in ('opqit', 'opq', 'unk', 'oslice'):
            # iterator over user data / user iterator
            out = []
            st.log('user', 'Iterator::next', (self.tag_of(v),))
            user = h in ('opq', 'unk')
            if user and not st.unwinding:
                u = st.fork()
                u.unwinding = True
                u.log('panic', 'user', 'Iterator::next')
                self.stats['escapes'] += 1
                out.append(('unwind', u, None))
            a = st.fork()
            a.log('next', self.tag_of(v), 'Some')
            if h == 'opqit' and len(v) > 2 and v[2] is not None:
                item_ty = v[2]
            item = self.mk_unknown(a, item_ty, ('item', self.tag_of(v)), self.gs_of(st, fid))
            out.append(('ret', a, some(item)))
            st.log('next', self.tag_of(v), 'None')
            out.append(('ret', st, NONE))
            return out
        raise Unproven('next() on %s' % (h,))

    def gs_from_value(self, st, v, body):
        """const generics of an impl method from the receiver value (capacities of the maps inside)"""
        gs = {}
        consts = [g['name'] for g in body.generics if g['kind'] == 'const']
        if not consts:
            return gs
        # receiver type args: take the caps of the containers reachable from the value, in the
        # order of the impl's self type arguments
        st_args = [a for a in (body.impl['self'].get('args') or []) if a.get('k') == 'const']
        caps = self.caps_in(st, v)
        for a in st_args:
            nm = a['v']
            if nm in consts and caps:
                gs[nm] = caps.pop(0)
        for c in consts:
            if c not in gs:
                gs[c] = fresh('$cap')
        return gs

    def caps_in(self, st, v, depth=0, acc=None):
        if acc is None:
            acc = []
        if isinstance(v, tuple) and v and depth < 8:
            if v[0] == 'map':
                acc.append(st.maps[v[1]].cap)
            elif v[0] == 'adt':
                for x in v[3]:
                    self.caps_in(st, x, depth + 1, acc)
            elif v[0] == 'ref' and v[2][0] in ('O', 'L'):
                try:
                    self.caps_in(st, self.load(st, v[2]), depth + 1, acc)
                except Unproven:
                    pass
        return acc
