"""Abstract state of the slot typestate interpreter (DESIGN.md §2.2).

Values are immutable tuples, tagged by their first element:

  ('int', x)                  x: python int | Term
  ('slen', lo, hi)            length hi-lo of a slot slice (kept symbolic)
  ('bool', b)                 known constant
  ('boolc', (op, a, b))       comparison of two ints, decided on demand by the zone
  ('boolu', tag)              unknown bool (answer of user code); tag for the path log
  ('tuple', (v...))           also unit
  ('adt', path, variant, (v...))
  ('ref', mut, ptr)
  ('opq', tag)                opaque (user) value with a provenance tag
  ('unk', ty, tag)            not yet materialised value of MIR type `ty`
  ('closure', body_id, (upvars...), gs)
  ('fn', def, callee_json)
  ('map', mid)                a slot container (the struct holding len + [MaybeUninit; N])
  ('sliceit', mid, front, back, mut)   core::slice::Iter/IterMut over slots [front, back)
  ('oslice', tag, len) / ('oarr', tag, len)   opaque slice / array (elements are user data)
  ('opqit', tag)              opaque iterator over user data
  ('mu_uninit',) ('mu_init', v) ('uninit_arr',)
  ('moved',)

Pointers (targets of refs / evaluated places):

  ('L', fid, local, proj)  ('O', oid, proj)      proj: tuple of field indices / ('idx', term)
  ('len', mid)  ('pairs', mid)  ('slice', mid, lo, hi)
  ('mu', mid, idx)                 a MaybeUninit slot
  ('pair', mid, idx, sub)          the initialised content of a slot (sub: field path)
  ('opq', tag)                     user memory
"""
from .zone import Zone, Term, fresh, ZERO

import json as _json


class TyBox(dict):
    """a MIR type (JSON object) made hashable so that it can sit inside abstract values"""
    def __hash__(self):
        h = self.__dict__.get('_h')
        if h is None:
            h = hash(_json.dumps(self, sort_keys=True, default=str))
            self.__dict__['_h'] = h
        return h


def freeze(ty):
    if ty is None or isinstance(ty, TyBox):
        return ty
    return TyBox(ty)


MOVED = ('moved',)
UNIT = ('tuple', ())
TRUE = ('bool', True)
FALSE = ('bool', False)


def I(x):
    return ('int', x)


OPTION = 'core::option::Option'
RESULT = 'core::result::Result'
CFLOW = 'core::ops::control_flow::ControlFlow'


def some(v):
    return ('adt', OPTION, 1, (v,))


NONE = ('adt', OPTION, 0, ())


class MapState:
    """Slot exceptions of one container relative to INV at its current len."""
    __slots__ = ('len', 'cap', 'holes', 'extras', 'hole_rng', 'extra_rng', 'contents',
                 'exempt', 'dead', 'owned_extras', 'name', 'len0', 'examined', 'phantom',
                 'entry_inv', 'borrowed', 'pending', 'asked', 'asked_carry', 'replaced')

    def __init__(self, len_, cap, name):
        self.len = len_
        self.cap = cap
        self.holes = ()
        self.extras = ()
        self.hole_rng = (0, 0)
        self.extra_rng = (0, 0)
        self.contents = ()        # ((idx, (ktag, vtag)), ...) overrides of the entry contents
        self.exempt = False       # receiver of its own Drop::drop
        self.dead = False         # destroyed (Drop::drop has run) or given away
        self.owned_extras = False  # extra_rng is owned by a handle that was assumed at entry
        self.name = name
        self.len0 = len_          # len at root entry (None for maps created inside the root)
        self.examined = None      # (key_tag, lo, hi): prefix compared against key_tag, all "no"
        self.phantom = False
        self.entry_inv = True
        self.asked = None         # ((lo, hi), ...): slots whose element a user callable was already called for
        self.asked_carry = None   # key tag of an asked element that is being moved (read out, not yet written back)
        self.pending = None       # (idx, scanned key tag): slot covered by len += 1 but not written yet
        self.borrowed = False     # lives behind a reference given to the root (survives the call)
        self.replaced = None      # id of the container value that was assigned over this one (`*self = new`)

    def copy(self):
        m = MapState.__new__(MapState)
        for s in MapState.__slots__:
            setattr(m, s, getattr(self, s))
        return m

    def describe(self):
        out = ['len=%s cap=%s' % (self.len, self.cap)]
        if self.holes:
            out.append('holes=%s' % (list(self.holes),))
        if self.extras:
            out.append('extras=%s' % (list(self.extras),))
        if self.hole_rng != (0, 0):
            out.append('hole_rng=[%s,%s)' % self.hole_rng)
        if self.extra_rng != (0, 0):
            out.append('extra_rng=[%s,%s)%s' % (self.extra_rng + ('(owned)' if self.owned_extras else '',)))
        if self.dead:
            out.append('dead')
        return ' '.join(out)


class State:
    __slots__ = ('loadcache', 'pendload', 'arrinv', 'hitpairs', 'guards', 'aux', 'ghost', 'loops', 'frames', 'fmeta', 'objs', 'maps', 'zone', 'events', 'unwinding', 'depth',
                 'next_id', 'assumed', 'notes', 'keep', 'pairs')

    def __init__(self):
        self.frames = {}      # fid -> {local: val}
        self.fmeta = {}       # fid -> (body_id, gsubst dict)
        self.objs = {}        # oid -> val
        self.maps = {}        # mid -> MapState
        self.zone = Zone()
        self.events = ()
        self.unwinding = False
        self.depth = 0
        self.next_id = 0
        self.assumed = ()
        self.notes = ()
        self.keep = frozenset()   # heap cells that model caller-owned memory (never collected)
        self.loadcache = {}       # (array tag, index term, field path) -> value already read from that element
        self.pendload = None      # one half of a pair being read field by field from a local array element
        self.arrinv = {}          # local array tag -> ('hit', mid, request-array tag) | None: what every pair stored there satisfied
        self.hitpairs = ()        # ((slot term, request index term, mid, request-array tag), ...) read back from such arrays
        self.guards = ()          # decided comparisons between entry-state quantities (arguments, entry lens, N): kept apart at joins
        self.aux = ()             # ((hi, lo, d), ...): auxiliary difference terms, d == hi - lo exactly (DESIGN 14.14)
        self.ghost = {}           # loop key -> (term, container ids): ghost counter of kept elements (count schemas)
        self.loops = ()           # keys of the loops this path is currently inside, outermost first
        self.pairs = {}           # opaque array tag -> (x, y, J) | None: pairwise-compared prefix (DESIGN §14.8)

    def fork(self):
        s = State.__new__(State)
        s.frames = {k: dict(v) for k, v in self.frames.items()}
        s.fmeta = dict(self.fmeta)
        s.objs = dict(self.objs)
        s.maps = {k: v.copy() for k, v in self.maps.items()}
        s.zone = self.zone.copy()
        s.events = self.events
        s.unwinding = self.unwinding
        s.depth = self.depth
        s.next_id = self.next_id
        s.assumed = self.assumed
        s.notes = self.notes
        s.keep = self.keep
        s.pairs = dict(self.pairs)
        s.loops = self.loops
        s.ghost = dict(self.ghost)
        s.aux = self.aux
        s.guards = self.guards
        s.arrinv = dict(self.arrinv)
        s.hitpairs = self.hitpairs
        s.pendload = self.pendload
        s.loadcache = dict(self.loadcache)
        return s

    def new_id(self, prefix):
        # lowest free id: allocation inside loop bodies must be repeatable across iterations
        k = 1
        pool = self.maps if prefix == 'm' else self.objs
        while '%s%d' % (prefix, k) in pool:
            k += 1
        return '%s%d' % (prefix, k)

    def log(self, *ev):
        self.events = self.events + (tuple(ev),)


# ------------------------------------------------------------------ term walking
def map_terms(v, f):
    """apply f to every Term inside a (nested tuple) value"""
    if isinstance(v, Term):
        return f(v)
    if isinstance(v, tuple):
        return tuple(map_terms(x, f) for x in v)
    return v


def terms_of(v, acc=None):
    if acc is None:
        acc = set()
    if isinstance(v, Term):
        acc.add(v)
    elif isinstance(v, tuple):
        for x in v:
            terms_of(x, acc)
    return acc


def is_persistent(t):
    return t.name.startswith('$')
