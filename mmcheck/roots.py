"""Analysis roots: set-up of the entry state from the signature, exit checks (INV / SINV /
handle and struct invariants), and the driver loop over all roots of a fact file."""
import time
import traceback
from .zone import Term, fresh
from .state import State, MOVED, UNIT, I, is_persistent
from . import slots
from .slots import Unproven
from .engine import Engine, Budget
from .interp import short


def is_root(b):
    if b.kind not in ('Fn', 'AssocFn'):
        return False
    if b.is_trait_impl():
        return True
    return bool(b.reachable)


def root_kind(b):
    if b.unsafe:
        return 'unsafe-api'
    if b.is_trait_impl():
        return 'trait-impl'
    return 'safe-api'


class RootResult:
    def __init__(self, body):
        self.body = body
        self.outcomes = []      # (kind, state, value)
        self.error = None
        self.args = None
        self.st0 = None
        self.subjects = None
        self.entries = []
        self.wall = 0.0
        self.blocks = 0


def setup(E, body):
    st = State()
    gs = {}
    for g in body.generics:
        if g['kind'] == 'const':
            t = Term('$' + g['name'])
            st.zone.touch(t)
            gs[g['name']] = t
    args = []
    for i in range(1, body.arg_count + 1):
        loc = body.locals[i]
        name = loc.get('name') or ('arg%d' % i)
        v = E.mk_unknown(st, loc['ty'], ('arg', name), gs)
        if v[0] == 'int' and isinstance(v[1], Term):
            # keep argument integers recognisable
            t = Term('$arg.' + name)
            st.zone.touch(t)
            st.zone.add_eq(t, v[1])
            v = I(t)
        args.append(v)
    return st, gs, args


def entry_variants(E, st, gs, args):
    """An Option<crate iterator> field inside the receiver (e.g. a half that is cleared once it ended) is, at
    entry, either Some(unknown iterator) or None: both entry states are analysed.  -> [(state, args)]"""
    if not args:
        return [(st, args)]
    recv = args[0]
    holder = None
    v = recv
    if v[0] == 'ref' and v[2][0] == 'O' and v[2][1] in st.objs:
        holder = v[2][1]
        v = st.objs[holder]
    if v[0] != 'adt':
        return [(st, args)]
    spots = []

    def walk(x, path, d=0):
        if not isinstance(x, tuple) or not x or d > 4 or len(spots) >= 2:
            return
        if x[0] == 'unk' and isinstance(x[1], tuple) is False and getattr(x[1], 'get', None) and x[1].get('k') == 'adt' \
                and x[1].get('path') == 'core::option::Option' and x[1].get('args') \
                and x[1]['args'][0].get('k') == 'adt' and x[1]['args'][0].get('local'):
            spots.append((path, x))
        elif x[0] == 'adt':
            for i, y in enumerate(x[3]):
                walk(y, path + (i,), d + 1)
    walk(v, ())
    if not spots:
        return [(st, args)]

    def put(x, path, new):
        if not path:
            return new
        f = list(x[3])
        f[path[0]] = put(f[path[0]], path[1:], new)
        return (x[0], x[1], x[2], tuple(f))
    from .state import some, NONE
    import itertools
    out = []
    for choice in itertools.product((True, False), repeat=len(spots)):
        s2 = st.fork()
        cur = s2.objs[holder] if holder else v
        for (path, x), present in zip(spots, choice):
            if present:
                inner = E.mk_unknown(s2, dict(x[1]['args'][0]) if not isinstance(x[1]['args'][0], dict) else x[1]['args'][0],
                                     x[2] + ('some',), gs)
                cur = put(cur, path, some(inner))
            else:
                cur = put(cur, path, NONE)
        a2 = list(args)
        if holder:
            s2.objs[holder] = cur
        else:
            a2[0] = cur
        out.append((s2, a2))
    return out


def reachable_values(E, st, vals):
    """all values reachable from vals (through refs into heap cells as well)"""
    out = []
    seen = set()
    work = list(vals)
    while work:
        v = work.pop()
        if not isinstance(v, tuple) or not v:
            continue
        out.append(v)
        h = v[0]
        if h == 'ref':
            p = v[2]
            if p[0] == 'O' and p[1] not in seen and p[1] in st.objs:
                seen.add(p[1])
                work.append(st.objs[p[1]])
        elif h == 'tuple':
            work.extend(v[1])
        elif h == 'adt':
            work.extend(v[3])
        elif h == 'closure':
            work.extend(v[2])
    return out


def no_drop_glue(st):
    """this path runs only for element types without drop glue: `needs_drop::<(A, B)>()` answered false for a PAIR
    type (the slots of every container of the crate hold pairs; needs_drop::<V>() or ::<K>() alone says nothing
    about the other half and is not accepted).  Destroying such an element is a no-op, so leaving it is no leak."""
    for e in st.events:
        if e and e[0] == 'assume' and len(e) == 3 and e[2] is False and isinstance(e[1], tuple) \
                and e[1][:1] == ('needs_drop',):
            ty = e[1][1]
            if isinstance(ty, dict) and ty.get('k') == 'tuple' and len(ty.get('elems') or ()) == 2:
                return True
    return False


def check_dropall(E, st, mid, prim):
    """after Drop::drop of a container: exactly its live elements were destroyed"""
    m2 = st.maps[mid]
    if no_drop_glue(st):
        E.oblig('DROPALL', True, prim, '', sample='no drop glue on this path: %s' % m2.describe())
        return
    z = st.zone
    lo, hi = m2.hole_rng
    allgone = (z.entails_eq(lo, 0) and z.entails_eq(hi, m2.len) and not m2.holes) or z.entails_eq(m2.len, 0)
    noextra = (not m2.extras and slots.empty(z, m2.extra_rng)) or st.unwinding
    # (while unwinding, elements outside the published prefix are leaked: tolerated)
    E.oblig('DROPALL', allgone and noextra, prim,
            'Drop for the container does not destroy exactly its live elements: %s' % m2.describe(),
            'unproven', sample=m2.describe())


def exit_checks(E, st, kind, retval, is_drop_root=False):
    """INV at a normal return, SINV after unwinding out of the root"""
    unw = kind == 'unwind'
    prim = 'unwind-exit' if unw else 'return'
    E.view_zone = st.zone
    caller_mem = [st.objs[o] for o in sorted(st.keep) if o in st.objs]
    ret_vals = reachable_values(E, st, [retval]) if (retval is not None and not unw) else []
    survivors = reachable_values(E, st, caller_mem) + ret_vals
    its = [v for v in survivors if v[0] == 'sliceit']
    for v in survivors:
        cv = E.cursor_view(v)
        if cv is not None:
            its.append(cv)
            # the hand-written cursor never runs past the end of its slice (size hints subtract the two)
            E.oblig('HANDLE', st.zone.entails_le(cv[2], cv[3]) or st.maps[cv[1]].dead, prim,
                    'cursor %s of %s is not proved <= the length of its slice (%s)' % (cv[2], v[1], cv[3]), 'unproven',
                    sample='%s <= %s' % (cv[2], cv[3]))
    ret_maps = {v[1] for v in ret_vals if v[0] == 'map'}
    for mid, ms in st.maps.items():
        if ms.dead:
            continue
        rule = 'INV'
        if unw:
            origin = [e for e in st.events if e and e[0] == 'panic']
            rule = 'ESC-user' if (origin and origin[-1][1] == 'user') else 'ESC-own'
        if is_drop_root and ms.borrowed and not ms.phantom:
            # the receiver of Drop::drop is deallocated next: nothing observes it any more
            if not unw:
                check_dropall(E, st, mid, 'Drop::drop')
            continue
        if not (ms.borrowed or mid in ret_maps):
            if unw:
                continue   # an owned local container that cleanup did not drop: leaked (tolerated)
            leaked = not st.zone.entails_eq(ms.len, 0) or ms.extras or not slots.empty(st.zone, ms.extra_rng)
            E.oblig('INV', not leaked, prim,
                    'LEAK: container %s is neither returned, dropped nor reachable [%s]' % (mid, ms.describe()),
                    'refuted', sample='%s dropped or empty' % mid)
            continue
        hr = [(v[2], v[3]) for v in its if v[1] == mid and v[4]]
        probs = slots.inv_problems(st, mid, allow_extras=unw, handle_ranges=hr)
        E.oblig(rule, not probs, prim,
                '; '.join('%s: %s' % p for p in probs) + ' [%s]' % ms.describe(),
                'refuted', sample='%s %s' % (mid, ms.describe()))
    # handle invariants
    if is_drop_root and not unw:
        # the owning handle is gone after this call: whatever it still owned -- whether or not its cursor
        # has passed over it -- must have been destroyed or moved out
        for mid, ms in st.maps.items():
            if ms.owned_extras and not ms.dead and not slots.empty(st.zone, ms.extra_rng) and not no_drop_glue(st):
                E.oblig('HANDLE-DROP', False, 'Drop::drop',
                        'the owning handle is destroyed while elements it owns are still live: %s' % ms.describe(),
                        'unproven', sample=ms.describe())
                ms.extra_rng = (0, 0)
                ms.owned_extras = False
    for v in its:
        _, mid, fr, bk, mut = v
        ms = st.maps[mid]
        if ms.dead:
            continue
        z = st.zone
        if z.entails_le(bk, fr):
            continue
        if is_drop_root and ms.owned_extras and not unw:
            E.oblig('HANDLE-DROP', slots.empty(z, ms.extra_rng) or no_drop_glue(st), 'Drop::drop',
                    'the owning handle is destroyed while it still owns live elements [%s,%s): %s'
                    % (fr, bk, ms.describe()), 'unproven', sample=ms.describe())
            continue
        covered = z.entails_le(bk, ms.len) and z.entails_le(0, fr)
        owned = (not slots.empty(z, ms.extra_rng)) and z.entails_le(ms.extra_rng[0], fr) \
            and z.entails_le(bk, ms.extra_rng[1])
        E.oblig('HANDLE', covered or owned, prim,
                'iterator over slots [%s,%s) of %s which are not all live (%s)' % (fr, bk, mid, ms.describe()),
                'unproven', sample='[%s,%s) within %s' % (fr, bk, ms.describe()))
    # struct invariants (index < len)
    for v in survivors:
        if v[0] == 'adt':
            si = E.struct_inv_fields(v[1])
            if si is None:
                continue
            idx, r = v[3][si[0]], v[3][si[1]]
            if idx[0] == 'moved' or r[0] == 'moved':
                continue
            mid = E.map_of_ref(st, r) if r[0] == 'ref' else None
            if mid is None or idx[0] != 'int':
                E.oblig('STRUCTINV', False, prim, 'cannot resolve the container behind %s' % v[1], 'unproven')
                continue
            ok = st.zone.entails_lt(idx[1], st.maps[mid].len)
            E.oblig('STRUCTINV', ok, prim,
                    '%s.index (%s) is not proved < len (%s)' % (v[1], idx[1], st.maps[mid].len), 'unproven',
                    sample='%s < %s' % (idx[1], st.maps[mid].len))


# panics the crate raises itself (as opposed to panics of user code it calls): explicit panic! / assert! /
# expect / unwrap, and the checks the compiler or core insert (bounds, overflow, split points)
OWN_CORE_PANICS = ('slice index out of range', 'index out of range', 'split_at_mut: mid > len',
                   'swap: index out of bounds', 'expect on None')
# roots whose own panics are documented and not tied to the refusal of an insertion (or are formatting plumbing)
REFUSAL_EXEMPT_METHODS = ('get_disjoint_mut', 'get_disjoint_unchecked_mut', 'with_capacity', 'fmt')


def own_panic(e):
    if e[1].startswith('assert:'):
        # (overflow checks exist in debug builds only; what a wrapped value does in release is judged by the schemas)
        return 'overflow' not in e[1]
    if e[1] != 'core':
        return False
    nm = e[2]
    return nm in OWN_CORE_PANICS or nm.startswith('core::panicking::') or nm.endswith('unwrap_failed') \
        or nm.endswith('expect_failed')


def refusal_check(E, body, st):
    """REFUSAL: the crate itself panics only to refuse a NEW key for which no room is left (some container of
    the path is full and a complete scan for the key found nothing), or -- Index / IndexMut -- for an absent
    key.  Any other panic of its own (an assertion in front of the lookup, a stray bounds check) turns a call
    the reference model answers into a panic."""
    origin = [e for e in st.events if e and e[0] == 'panic']
    if not origin or not own_panic(origin[-1]):
        return
    if body.name in REFUSAL_EXEMPT_METHODS:
        return
    # the branch that led into the panic: when it was taken on a condition the analysis could not evaluate (a
    # comparison of values it has no relation for -- typically an always-true consistency assertion, `debug_assert!(
    # upper == Some(lower))`), the panicking path is an artefact of the abstraction, not a refusal the crate
    # was seen to make: the rule speaks only about panics whose condition is decided or left open by the ZONE
    idx = max(i for i, e in enumerate(st.events) if e and e[0] == 'panic')
    for e in reversed(st.events[:idx]):
        if not e:
            continue
        if e[0] == 'cond':
            break
        if e[0] == 'assume':
            t = e[1]
            while isinstance(t, tuple) and len(t) == 2 and t[0] == 'not':
                t = t[1]
            if isinstance(t, tuple) and t[:1] in (('cmp',), ('?',), ('ovf',)):
                E.stats['refusal_undecided'] += 1
                return
            break
    from . import specs
    key = specs.root_key(body)
    just = None
    for mid, full in (origin[-1][3] if len(origin[-1]) > 3 else ()):
        if full or key[1] in ('Index', 'IndexMut'):
            just = (mid, 'full' if full else 'indexed')
            break
    props = {'C03', 'C07' if (key[0] or '').startswith(('set::', '&set::')) or 'set::' in body.id else 'C01'}
    E.oblig('REFUSAL', just is not None, 'own-panic',
            'the call panics (%s: %s) although no full container was scanned completely for a missing key on this '
            'path: the crate may refuse only a new key that finds no room (or index an absent key)'
            % (origin[-1][1], origin[-1][2]), 'refuted',
            sample='panic %s justified by container %s (%s) after a complete miss' % ((origin[-1][2],) + just) if just else None,
            props=sorted(props))


def run_root(E, body, contract=None):
    rr = RootResult(body)
    t0 = time.time()
    E.root = body.id
    E.chain = []
    E.contract = contract
    b0 = E.stats['blocks']
    try:
        st, gs, args = setup(E, body)
        variants = entry_variants(E, st, gs, args)
        rr.entries = []
        first = True
        for st, args in variants:
            _run_entry(E, body, rr, st, gs, args, contract, first)
            first = False
        E.chain = []
    except Budget:
        E.violate('SHAPE', 'unproven', 'budget', 'step budget exhausted')
        rr.error = 'budget'
    except Unproven as e:
        E.violate('SHAPE', 'unproven', 'interpreter', str(e))
        rr.error = str(e)
    except RecursionError:
        E.violate('SHAPE', 'unproven', 'interpreter', 'recursion limit')
        rr.error = 'recursion'
    rr.wall = time.time() - t0
    rr.blocks = E.stats['blocks'] - b0
    E.contract = None
    return rr


def _run_entry(E, body, rr, st, gs, args, contract, first):
    if True:
        from . import specs
        if first:
            rr.args = list(args)
            rr.subjects = specs.subjects_of(E, st, args)
            rr.st0 = st.fork()
        st0 = rr.st0 if first else st.fork()
        rr.entries.append((list(args), st0))
        st.notes = st.notes + (('entry', len(rr.entries) - 1),)
        E.root_entry = (list(args), st0)
        E._roles_cache = None
        from . import specs as _specs
        E.track_adv = _specs.root_key(body) in _specs.ADV_TRACK
        E.track_pop = _specs.root_key(body) in _specs.POP_TRACK
        E.track_agree = _specs.root_key(body) in _specs.AGREE_TRACK
        E.track_fmt = _specs.root_key(body) in _specs.FMT_ROOTS
        E.track_ownnext = _specs.root_key(body) in _specs.FMT_CLONE_ROOTS
        E.track_ser = _specs.root_key(body) in _specs.SER_ROOTS
        E.track_fmt = E.track_fmt or E.track_ser
        E.agree_props = _specs.AGREE_TRACK.get(_specs.root_key(body))
        # the arrays of requests the caller hands in (by value): what is scanned for each stored key
        E.agree_arrays = tuple(a[1] for a in args if isinstance(a, tuple) and a and a[0] == 'oarr' and isinstance(a[1], tuple)) \
            if E.track_agree else ()
        E.track_pull = _specs.root_key(body) in _specs.ITER_HOOKS and 'C16' in _specs.ITER_HOOKS[_specs.root_key(body)][0]
        ap = _specs.ASKED_ONCE.get(_specs.root_key(body))
        E.asked_props = ap
        if ap:
            for ms in st.maps.values():
                if ms.borrowed and not ms.phantom:
                    ms.asked = ()        # tracking, nothing asked yet
        if contract in ('not-full', 'no-append'):
            for ms in st.maps.values():
                if ms.borrowed and not ms.phantom:
                    if contract == 'not-full':
                        st.zone.add_lt(ms.len, ms.cap)
                    else:
                        st.zone.add_eq(ms.len, ms.cap)
        # keep the parameter values alive for the exit checks: frame 0 holds them
        is_drop = bool(body.impl and body.impl.get('trait') == 'core::ops::drop::Drop')
        if is_drop:
            for ms in st.maps.values():
                if ms.borrowed and not ms.phantom:
                    ms.exempt = True
        res = E.exec_fn(st, body, list(args), gs)
        for kind, s, v in res:
            if contract:
                s.notes = s.notes + (('contract', contract),)
            E.chain = [body.id]
            E.cur_span = body.span
            E.in_unwind = (kind == 'unwind')
            try:
                exit_checks(E, s, kind, v, is_drop)
                if kind == 'unwind':
                    refusal_check(E, body, s)
            except Unproven as e:
                E.violate('SHAPE', 'unproven', 'exit', str(e))
            rr.outcomes.append((kind, s, v))


def analyse(facts, only=None, verbose=False):
    E = Engine(facts)
    results = {}
    for bid in sorted(facts.bodies):
        b = facts.bodies[bid]
        if not is_root(b):
            continue
        if only and not any(o in bid for o in only):
            continue
        try:
            rr = run_root(E, b, None)
        except Exception as e:   # a crash of the analyser is a failure of the check, not a pass
            E.violate('SHAPE', 'unproven', 'crash', '%s: %s' % (type(e).__name__, e))
            rr = RootResult(b)
            rr.error = traceback.format_exc()
            if verbose:
                print(rr.error)
        results[bid] = rr
        if verbose:
            print('%-90s %4d exits %6d blocks %.2fs %s' % (bid[:90], len(rr.outcomes), rr.blocks, rr.wall,
                                                          'ERR ' + str(rr.error)[:60] if rr.error else ''))
    return E, results
