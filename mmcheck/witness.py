"""E4 — compile-fail witnesses (DESIGN.md §2.4): a doc-test-only crate that path-depends on the repository
under check.  `cargo +nightly test --doc` compiles every block; `compile_fail,E....` blocks must be rejected
with exactly that error code, their `no_run` twins must compile.  Nothing is executed."""
import os
import re
import shutil
import subprocess
import tempfile

HERE = os.path.dirname(os.path.dirname(os.path.abspath(__file__)))

# which properties each witness serves
SERVES = {
    'W01': ['C05'], 'W02': ['C11', 'C02'], 'W03': ['C11', 'C02'], 'W04': ['C11', 'C02'], 'W05': ['C10'],
    'W06': ['C09'], 'W07': ['C13'], 'W08': ['C18', 'C03'], 'W09': ['C18', 'C13'], 'W10': ['C05'],
    'W11': ['C05', 'C12'], 'W12': ['C07', 'C05'],
}


def run(repo):
    """-> (results, log): results = list of {'witness', 'kind': compile_fail|twin, 'ok': bool, 'line': n}"""
    d = tempfile.mkdtemp(prefix='mmwit-')
    try:
        os.makedirs(os.path.join(d, 'src'))
        shutil.copy(os.path.join(HERE, 'witness', 'lib.rs'), os.path.join(d, 'src', 'lib.rs'))
        with open(os.path.join(d, 'Cargo.toml'), 'w') as f:
            f.write('[package]\nname = "mmwitness"\nversion = "0.0.0"\nedition = "2021"\n\n[lib]\npath = "src/lib.rs"\n\n'
                    '[dependencies]\nmicromap = { path = "%s" }\n\n[workspace]\n' % repo)
        lock = os.path.join(repo, 'Cargo.lock')
        if os.path.exists(lock):
            shutil.copy(lock, os.path.join(d, 'Cargo.lock'))
        env = dict(os.environ, CARGO_NET_OFFLINE='true', CARGO_TARGET_DIR=os.path.join(d, 'target'))
        env.pop('RUSTC_WORKSPACE_WRAPPER', None)
        p = subprocess.run(['cargo', '+nightly', 'test', '--doc', '--offline'], cwd=d, env=env,
                           capture_output=True, text=True)
        out = p.stdout + p.stderr
        src = open(os.path.join(HERE, 'witness', 'lib.rs')).read().split('\n')
        # map doc-test line -> witness name: the struct that follows the block
        def owner(line):
            for i in range(line, len(src)):
                m = re.match(r'pub struct (W\d\d)', src[i])
                if m:
                    return m.group(1)
            return '?'
        res = []
        for m in re.finditer(r'^test src/lib\.rs - (\S+) \(line (\d+)\)( - compile fail)?( - compile)? \.\.\. (\w+)', out, re.M):
            line = int(m.group(2))
            res.append({'witness': owner(line), 'kind': 'compile_fail' if m.group(3) else 'twin',
                        'ok': m.group(5) == 'ok', 'line': line})
        return res, out[-3000:]
    finally:
        shutil.rmtree(d, ignore_errors=True)
