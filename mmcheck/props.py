"""Property registry: which engines / rules / configurations decide which property, how rule
violations map to properties, evidence files, known findings (DESIGN.md §0, §6, §8)."""
import json
import os
import sys
import time

from . import graph
from . import manifest_text

HERE = os.path.dirname(os.path.dirname(os.path.abspath(__file__)))
EVID = os.environ.get('VERIF_EVIDENCE_DIR') or os.path.join(HERE, 'evidence')
KNOWN = os.path.join(HERE, 'known_findings.json')

SAFETY = ('C02', 'C03', 'C04', 'C05', 'C17')

TRUSTED = [
    'rustc front end: type/borrow checking, MIR construction and drop elaboration (nightly 1.97; the same front end as the stable build)',
    'Instance::try_resolve for callee resolution',
    'memory safety and documented semantics of core, as frozen in mmcheck/models.py (one line per model)',
    'derivation principle: a reference returned by safe core code derives from the references it was given',
    'user types K, V, Q, F are ordinary Rust (no unsafe code reaching into the container)',
]

ALLCFG = ['A', 'B', 'C', 'E']
PROPS = {
    # safety properties: every root, debug + release MIR
    'C02': {'quick': ['A', 'B'], 'thorough': ALLCFG, 'level': 'proof', 'e2': True, 'roots': 'all'},
    'C03': {'quick': ['A', 'B'], 'thorough': ALLCFG, 'level': 'proof', 'e2': True, 'roots': 'all'},
    'C04': {'quick': ['A', 'B'], 'thorough': ALLCFG, 'level': 'proof', 'e2': True, 'roots': 'all'},
    # (C05 also on the serde build: deserialisation is one more way to construct a container)
    'C05': {'quick': ['A', 'B', 'D'], 'thorough': ALLCFG + ['D'], 'level': 'proof', 'e2': True, 'roots': 'all'},
    'C17': {'quick': ['A', 'B'], 'thorough': ALLCFG, 'level': 'proof', 'e2': True, 'roots': 'all'},
    # (graph analyses on all builds; the INSIDE rule -- element references point into the container -- is decided by
    # the interpreter on the roots that hand out element references, builds A and B: 'e2cfgs')
    'C06': {'quick': ['A', 'B', 'C', 'D'], 'thorough': ['A', 'B', 'C', 'D', 'E'], 'level': 'proof', 'e2': True,
            'roots': 'anchors', 'e2cfgs': ['A', 'B']},
    # behavioural properties: outcome schemas on the anchor roots of the property
    # (C12 also on the serde build: the deserialisation visitors are insertion paths too)
    'C12': {'quick': ['A', 'B', 'D'], 'thorough': ALLCFG + ['D'], 'level': 'proof', 'e2': True, 'roots': 'anchors'},
    'C01': {'quick': ['A', 'B'], 'thorough': ALLCFG, 'level': 'other', 'e2': True, 'roots': 'anchors'},
    'C07': {'quick': ['A', 'B'], 'thorough': ALLCFG, 'level': 'other', 'e2': True, 'roots': 'anchors'},
    'C11': {'quick': ['A', 'B'], 'thorough': ALLCFG, 'level': 'other', 'e2': True, 'roots': 'anchors'},
    'C18': {'quick': ['A', 'B'], 'thorough': ALLCFG, 'level': 'other', 'e2': True, 'roots': 'anchors'},
    'C08': {'quick': ['A', 'B'], 'thorough': ALLCFG, 'level': 'other', 'e2': True, 'roots': 'anchors'},
    'C09': {'quick': ['A', 'B'], 'thorough': ALLCFG, 'level': 'other', 'e2': True, 'roots': 'anchors'},
    'C10': {'quick': ['A', 'B'], 'thorough': ALLCFG, 'level': 'other', 'e2': True, 'roots': 'anchors'},
    'C13': {'quick': ['A', 'B'], 'thorough': ALLCFG, 'level': 'other', 'e2': True, 'roots': 'anchors'},
    'C14': {'quick': ['A', 'B'], 'thorough': ALLCFG, 'level': 'other', 'e2': True, 'roots': 'anchors'},
    'C15': {'quick': ['A', 'B'], 'thorough': ALLCFG, 'level': 'other', 'e2': True, 'roots': 'anchors'},
    'C16': {'quick': ['A', 'B'], 'thorough': ALLCFG, 'level': 'other', 'e2': True, 'roots': 'anchors'},
    # (the listing clause of C19: which entries reach the formatter; DESIGN 14.22)
    'C19': {'quick': ['A', 'B'], 'thorough': ALLCFG, 'level': 'other', 'e2': True, 'roots': 'anchors'},
    # (both profiles of the serde build: an insertion written inside debug_assert! vanishes in release)
    'C20': {'quick': ['D', 'F'], 'thorough': ['D', 'F'], 'level': 'other', 'e2': True, 'roots': 'anchors'},
}
BEHAVIOURAL = {p for p, s in PROPS.items() if s.get('roots') == 'anchors'}


# Assume / guarantee between properties.  The schemas of the OBSERVER properties (iterators, equality, set
# algebra, clone, formatting, serialisation) are judged on an entry state in which every container satisfies the
# invariant (live prefix [0,len), len <= N, keys pairwise unequal).  That entry state is what the MUTATING roots
# guarantee at their exits.  Where one of them is REFUTED to leave a container in a state that breaks the
# invariant -- on a normal return, or on a path that unwinds -- what the observers conclude is void: "every
# stored entry exactly once" is false for a map with a hole below len or with a key stored twice.  So the
# observers' checks also interpret the mutating roots and count a refuted invariant rule there as their own.
OBSERVERS = {'C08', 'C09', 'C10', 'C14', 'C15', 'C19', 'C20'}
# (deserialisation is one more way to build a container: the observers also interpret the mutating roots of the
# serde build -- only those: their own anchors are judged on the builds listed in PROPS)
DEP_ONLY_CFGS = {p: ['D'] for p in ('C08', 'C09', 'C10', 'C14', 'C15', 'C19')}
MUTATOR_PROPS = {'C01', 'C07', 'C11', 'C12', 'C16', 'C18'}
DEP_RULES = ('INV', 'ESC-own', 'ESC-user', 'APPEND-AFTER-MISS')


def props_of(v):
    """properties a rule violation is evidence against"""
    s = _props_of(v)
    if v['rule'] in DEP_RULES and (v.get('status') == 'refuted' or v['rule'] == 'APPEND-AFTER-MISS') \
            and (set(v.get('root_props') or ()) & MUTATOR_PROPS):
        s = set(s) | OBSERVERS
    # C18: within their contract the unsafe entry points uphold every other guarantee, so every safety
    # rule that fails inside one of them is (also) evidence against C18
    if 'C18' in (v.get('root_props') or ()) and v['rule'] in UNSAFE_ROOT_RULES:
        s = set(s) | {'C18'}
    # what a behavioural schema concludes for a root rests on the unsafe obligations inside that root holding:
    # where one of them fails on a normal path, the conclusions for the root's own properties are void
    if v['rule'] in ('O1', 'O2', 'LEAK', 'DROPALL', 'HANDLE', 'HANDLE-DROP', 'INV', 'STRUCTINV') and not v.get('unwinding'):
        s = set(s) | (set(v.get('root_props') or ()) & set(BEHAVIOURAL))
    return s


UNSAFE_ROOT_RULES = ('O1', 'O2', 'LEAK', 'DROPALL', 'HANDLE', 'HANDLE-DROP', 'INV', 'ESC-user', 'ESC-own', 'STRUCTINV',
                     'MODEL', 'SHAPE', 'SPEC', 'APPEND-AFTER-MISS')


def _props_of(v):
    if v.get('props'):
        return set(v['props'])
    r = v['rule']
    if r == 'APPEND-AFTER-MISS':
        return {'C05'}
    if r in ('MODEL', 'SHAPE', 'SPEC'):
        # the analysis could not decide something inside this root: every property that relies on
        # the root is affected (fail closed)
        return set(SAFETY) | set(v.get('root_props') or ())
    if r == 'ANCHOR':
        return set(v.get('root_props') or ())
    unw = v.get('unwinding')
    what = v.get('what', '')
    if r == 'O1':
        # (an unchecked access past the array is how len() > capacity() comes about: C05 as well)
        return {'C04', 'C17'} if unw else {'C02', 'C03', 'C05', 'C17'}
    if r in ('O2', 'LEAK', 'DROPALL', 'HANDLE', 'HANDLE-DROP', 'DROPIMPL'):
        s = {'C04', 'C17'} if unw else {'C02', 'C17'}
        if r in ('HANDLE', 'HANDLE-DROP') and not unw:
            s |= {'C05'}
        if r == 'HANDLE-DROP':
            s |= {'C10'}     # what a drain does not yield it must destroy
        return s
    if r == 'INV':
        s = set()
        if 'HOLE' in what:
            s |= {'C02', 'C05', 'C17'}
        if 'LEAK' in what:
            s |= {'C02'}
        if 'CAP' in what:
            s |= {'C03', 'C05', 'C17'}
        return s or {'C02', 'C05'}
    if r == 'ESC-user':
        # (a dead slot left below len is destroyed a second time by the next clear / drop: C02 as well)
        return {'C04', 'C17'} | ({'C02'} if 'HOLE' in what else set())
    if r == 'ESC-own':
        return {'C05', 'C03', 'C17'}
    if r == 'STRUCTINV':
        return {'C02', 'C17'}
    if r in ('MODEL', 'CENSUS', 'SHAPE', 'SPEC', 'COVERAGE', 'FLOOR'):
        return set(SAFETY)
    if r in ('CRATEGRAPH', 'REACH', 'TYPECLOSURE'):
        return {'C06'}
    if r == 'SHIFT':
        # a word-sized bit set standing for slots or requests: what the root computes is wrong (or it panics) for
        # containers larger than the word -- evidence against every property that relies on the root
        return set(v.get('root_props') or ())
    return set()


# which obligation counters count for which property (evidence only)
RULE_PROPS = {
    'O1': {'C02', 'C03', 'C05', 'C17'}, 'O2': {'C02', 'C17'}, 'LEAK': {'C02'}, 'DROPALL': {'C02'},
    'HANDLE': {'C02', 'C05'}, 'HANDLE-DROP': {'C02'}, 'DROPIMPL': {'C02'},
    'INV': {'C02', 'C03', 'C05', 'C17'}, 'ESC-user': {'C04', 'C17'}, 'ESC-own': {'C03', 'C05', 'C17'},
    'STRUCTINV': {'C02', 'C17'}, 'APPEND-AFTER-MISS': {'C05'},
}


def load_known():
    if not os.path.exists(KNOWN):
        return {'findings': [], 'fixed': []}
    with open(KNOWN) as f:
        return json.load(f)


def write_evidence(pid, ev):
    os.makedirs(EVID, exist_ok=True)
    with open(os.path.join(EVID, pid + '.json'), 'w') as f:
        json.dump(ev, f, indent=1, default=str)


def write_replay(pid, k, v, extra=None):
    d = os.path.join(EVID, 'violations')
    os.makedirs(d, exist_ok=True)
    p = os.path.join(d, '%s-%d.json' % (pid, k))
    with open(p, 'w') as f:
        json.dump(dict(v, property=pid, **(extra or {})), f, indent=1, default=str)
    return p


def replay(pid, path):
    with open(path) as f:
        v = json.load(f)
    print('replay of %s: rule=%s status=%s' % (pid, v.get('rule'), v.get('status')))
    print('  root: %s' % v.get('root'))
    print('  path: %s' % ' > '.join(v.get('chain', [])))
    print('  site: %s  primitive: %s  (config %s)' % (v.get('span'), v.get('primitive'), v.get('config')))
    print('  %s' % v.get('what'))
    print('re-running the check on the current tree ...')
    rc = run_check(pid, 'quick', 0, only_key=v.get('key'))
    return rc


def coverage_rule(facts, merged):
    """every unsafe-primitive call site of the crate was reached by the interpreter from some root"""
    out = []
    covered = set()
    for r in merged['roots'].values():
        covered.update(r.get('cover', []))
    n = 0
    for b in facts.bodies.values():
        for bi, t in b.calls():
            c = t['callee']
            name = c.get('rdef') or c['def']
            if name in graph.UNSAFE_ALLOWED:
                n += 1
                key = '%s|%s' % (b.id, c['name'])
                if key not in covered:
                    out.append(graph.V('COVERAGE', 'unproven', b.id, c['name'],
                                       'this unsafe call site is not reached from any analysis root '
                                       '(its obligation was never checked)', t.get('span'), facts.config))
    return n, out


FLOORS = {'roots': 150, 'unsafe_sites': 20}


def e2_collect(pid, facts, merged):
    """violations + obligation counts of the slot interpreter relevant to property pid"""
    vs = []
    ob = dis = 0
    samples = []
    stats = {}
    for cfg, m in merged.items():
        f = facts[cfg]
        if cfg in DEP_ONLY_CFGS.get(pid, ()) and cfg not in PROPS[pid]['quick'] + PROPS[pid]['thorough']:
            # dependency-only configuration: only the mutating roots were interpreted here, and only a refuted
            # invariant rule at one of them counts (assume / guarantee, see OBSERVERS)
            for v in m['violations']:
                v = dict(v)
                v['config'] = cfg
                if v['rule'] in DEP_RULES and pid in props_of(v):
                    vs.append(v)
            for rule in DEP_RULES:
                ob += m['n_oblig'].get(rule, 0)
                dis += m['n_ok'].get(rule, 0)
            stats[cfg] = {'roots': len(m['roots']), 'config': cfg, 'role': 'mutating roots of the serde build only '
                          '(what they guarantee is what the schemas of this property assume)'}
            continue
        allv = list(m['violations'])
        n_cov, cov = coverage_rule(f, m)
        allv += cov
        n_cen, cen, counts = graph.census(f)
        allv += cen
        if len(m['roots']) < FLOORS['roots']:
            allv.append(graph.V('FLOOR', 'unproven', '<crate>', 'roots',
                                'only %d analysis roots found (floor %d)' % (len(m['roots']), FLOORS['roots']),
                                None, cfg))
        if n_cov < FLOORS['unsafe_sites']:
            allv.append(graph.V('FLOOR', 'unproven', '<crate>', 'unsafe sites',
                                'only %d unsafe primitive call sites found (floor %d)' % (n_cov, FLOORS['unsafe_sites']),
                                None, cfg))
        for r in m['roots'].values():
            if r.get('error'):
                pass
        if pid in BEHAVIOURAL:
            # fail closed on anchors: every root the property's schemas are written for must exist
            from . import specs
            have = {tuple(r.get('root_key') or ()) for r in m['roots'].values()}
            keep_census = pid == 'C13'
            allv = [v for v in allv if v['rule'] not in ('COVERAGE', 'FLOOR') and (keep_census or v['rule'] != 'CENSUS')]
            if pid == 'C13':
                for v in allv:
                    if v['rule'] == 'CENSUS':
                        v['props'] = ['C13']
                n_w, w = graph.who_may_call(f, 'get_disjoint_unchecked_mut', {'get_disjoint_mut'})
                for v in w:
                    v['props'] = ['C13']
                allv += w
                ob += n_w + n_cen
                dis += n_w - len(w) + n_cen - len(cen)
            anchors = specs.anchors(pid)
            if cfg not in ('D', 'F'):
                # (the serde visitors exist in the serde build only: anchored there)
                anchors = [k for k in anchors if 'serialization' not in (k[0] or '')]
            for k in anchors:
                if tuple(k) not in have:
                    a = graph.V('ANCHOR', 'missing-anchor', '<crate>', '%s::%s' % (k[0], k[2]),
                                'the operation %s::%s (trait %s) that property %s is anchored on was not found '
                                'among the analysis roots' % (k[0], k[2], k[1], pid), None, cfg)
                    a['props'] = [pid]
                    allv.append(a)
            ob += len(anchors)
            dis += sum(1 for k in anchors if tuple(k) in have)
        for v in allv:
            v = dict(v)
            v['config'] = cfg
            if pid in props_of(v):
                vs.append(v)
        for rule, n in m['n_oblig'].items():
            if pid in RULE_PROPS.get(rule, ()) or (pid in OBSERVERS and rule in DEP_RULES):
                ob += n
                dis += m['n_ok'].get(rule, 0)
        ob += m['n_oblig_p'].get(pid, 0)
        dis += m['n_ok_p'].get(pid, 0)
        if pid not in BEHAVIOURAL:
            ob += n_cov + n_cen
            dis += n_cov - len(cov) + n_cen - len(cen)
        for r in m['roots'].values():
            for rule, ss in r['samples'].items():
                mine = pid in RULE_PROPS.get(rule, ()) or (pid != 'C06' and pid in (r.get('root_props') or ())
                                                            and rule in ('OUT', 'ROUTE', 'SCAN', 'ARMCALL')) \
                    or (pid == 'C06' and rule == 'INSIDE')
                if mine and len(samples) < 8:
                    for s in ss[:1]:
                        samples.append(dict(s, rule=rule, config=cfg))
        stats[cfg] = {
            'roots': len(m['roots']),
            'exits': sum(r['exits'] for r in m['roots'].values()),
            'unwind_exits': sum(r['unwind_exits'] for r in m['roots'].values()),
            'blocks_interpreted': m['stats'].get('blocks', 0),
            'escape_points': m['stats'].get('escapes', 0),
            'user_callbacks': m['stats'].get('user_calls', 0),
            'model_calls': m['stats'].get('model_calls', 0),
            'unsafe_call_sites': n_cov,
            'unsafe_callee_counts': counts,
            'interpreter_wall_s': round(m['wall'], 2),
            'config': cfg,
            'schema_classes': {r['root']: dict(r['digest'].get('classes') or {}, **{'iteration:' + k: v for k, v in
                                                                                     (r['digest'].get('iteration_classes') or {}).items()})
                               for r in m['roots'].values()
                               if (r.get('digest', {}).get('classes') or r.get('digest', {}).get('iteration_classes'))
                               and pid in (r.get('root_props') or ())},
        }
    return vs, ob, dis, samples, stats


def c06_collect(facts, merged):
    vs = []
    ob = 0
    extra = {}
    for cfg, f in facts.items():
        nostd = cfg in ('A', 'B', 'D', 'F')
        n, v = graph.crategraph(f, nostd)
        ob += n
        vs += v
        n, v, info = graph.reach(f)
        ob += n
        vs += v
        extra[cfg] = {'call_and_drop_sites': n, 'crates': f.crate['crates'], 'no_std': f.crate['no_std'],
                      'instances_walked': info['instances_walked'], 'dyn_leaves': info['dyn_leaves'][:12],
                      'opaque_leaves': info['opaque_leaves'][:20]}
        if 'samples' not in extra:
            extra['samples'] = info['samples']
        n, v = graph.typeclosure(f)
        ob += n
        vs += v
    for v in vs:
        v.setdefault('props', ['C06'])
    return vs, ob, extra


LEVEL_TEXT = {}


def run_check(pid, tier, seed, only_key=None):
    from . import cli
    t0 = time.time()
    if pid not in PROPS:
        print('property %s is not claimed (see MANIFEST.json not_applicable)' % pid)
        return 2
    spec = PROPS[pid]
    cfgs = spec[tier]
    dep_only = [c for c in DEP_ONLY_CFGS.get(pid, ()) if c not in cfgs]
    if spec['e2']:
        select = None
        if spec.get('roots') == 'anchors':
            from . import specs

            def select(body, cfg, _pid=pid, _dep=tuple(dep_only), _only=spec.get('e2cfgs')):
                if _only is not None and cfg not in _only:
                    return False
                rp = specs.props_of_root(body)
                if cfg in _dep:
                    return bool(rp & MUTATOR_PROPS)
                # (observer properties rest on the invariant the mutating roots guarantee: interpreted as well)
                return _pid in rp or (_pid in OBSERVERS and bool(rp & MUTATOR_PROPS))
        else:
            def select(body, cfg):
                return True
        facts, merged = cli.gather(cfgs + dep_only, select=select)
    else:
        # graph-only properties: no interpreter run needed
        import tempfile
        import shutil
        import concurrent.futures
        from .facts import Facts
        cli.ensure_driver()
        work = tempfile.mkdtemp(prefix='mmcheck-')
        try:
            with concurrent.futures.ThreadPoolExecutor(len(cfgs)) as ex:
                paths = dict(zip(cfgs, ex.map(lambda c: cli.run_driver(c, work), cfgs)))
            facts = {c: Facts(p) for c, p in paths.items()}
            merged = {}
        finally:
            shutil.rmtree(work, ignore_errors=True)
    extra = {}
    if pid == 'C06':
        vs, ob, extra = c06_collect(facts, merged)
        dis = ob - len(vs)
        samples = extra.pop('samples', [])
        stats = extra
        e2c = spec.get('e2cfgs') or []
        vs2, ob2, dis2, samples2, stats2 = e2_collect(pid, {c: facts[c] for c in e2c}, {c: merged[c] for c in e2c})
        vs += vs2
        ob += ob2
        dis += dis2
        samples = (samples2[:4] + samples)[:10]
        stats['element_references'] = stats2
    else:
        vs, ob, dis, samples, stats = e2_collect(pid, facts, merged)
    # E4: compile-fail witnesses (both tiers: they cost well under a second)
    if True:
        from . import witness
        mine = sorted(w for w, ps in witness.SERVES.items() if pid in ps)
        if mine:
            tw = time.time()
            res, wlog = witness.run(cli.REPO)
            got = {}
            for r in res:
                got[(r['witness'], r['kind'])] = r['ok']
            wsamples = []
            for w in mine:
                for kind in ('compile_fail', 'twin'):
                    ob += 1
                    ok = got.get((w, kind))
                    if ok:
                        dis += 1
                        wsamples.append('%s %s: as expected' % (w, kind))
                        continue
                    what = ('the witness %s was not reported by rustdoc' % w) if ok is None else (
                        'the program that must NOT type-check compiles (or fails with another error)' if kind == 'compile_fail'
                        else 'the twin program that differs only in the offending line does not compile: the witness is void')
                    v = graph.V('WITNESS', 'refuted' if ok is False else 'unproven', 'witness/lib.rs', '%s:%s' % (w, kind),
                                what + '; rustdoc tail: ' + wlog[-400:], None, 'witness')
                    v['props'] = [pid]
                    vs.append(v)
            if isinstance(stats, dict):
                stats['witnesses'] = {'run': mine, 'wall_s': round(time.time() - tw, 1), 'results': wsamples}
    # thorough tier: the checker itself is validated for this property against the committed corpus
    # (selftest/mutants, seeded/, selftest/benign) in scratch worktrees; the outcome is evidence about the
    # checker, not about /repo, and never turns into a VIOLATION line
    validation = None
    if tier == 'thorough' and not os.environ.get('VERIF_NO_SELFTEST') and cli.REPO == '/repo':
        try:
            sys.path.insert(0, HERE)
            import selftest as st_mod
            tv = time.time()
            rows, okv = st_mod.validate([pid], verbose=False)
            validation = {
                'expectations': len(rows),
                'mutants_and_seeds_caught': sum(1 for r in rows if r['verdict'] == 'fires'),
                'mutants_and_seeds_missed': [r['patch'] for r in rows if r['verdict'] == 'MISSED'],
                'benign_silent': sum(1 for r in rows if r['verdict'] == 'silent'),
                'benign_false_alarms': [r['patch'] for r in rows if r['verdict'] == 'FALSE-ALARM'],
                'wall_s': round(time.time() - tv, 1),
            }
            print('CHECKER-VALIDATION property=%s caught=%d missed=%d benign_silent=%d false_alarms=%d'
                  % (pid, validation['mutants_and_seeds_caught'], len(validation['mutants_and_seeds_missed']),
                     validation['benign_silent'], len(validation['benign_false_alarms'])))
        except Exception as e:   # the validation corpus must never break the check of /repo
            validation = {'error': '%s: %s' % (type(e).__name__, e)}
    # de-duplicate across configurations by key
    seen = {}
    for v in vs:
        k = v['key']
        if k in seen:
            seen[k]['configs'] = sorted(set(seen[k].get('configs', [seen[k]['config']]) + [v['config']]))
        else:
            seen[k] = dict(v)
    vs = list(seen.values())
    if only_key:
        vs = [v for v in vs if v['key'] == only_key]
    known = load_known()
    known_keys = {(k['property'], k['key']): k for k in known.get('findings', [])}
    rc = 0
    n_new = 0
    for i, v in enumerate(vs):
        kf = known_keys.get((pid, v['key']))
        if kf is not None:
            print('KNOWN-FINDING: property=%s %s' % (pid, kf.get('what', v['key'])))
            continue
        path = write_replay(pid, i, v)
        n_new += 1
        print('VIOLATION property=%s replay=%s' % (pid, path))
        print('  [%s/%s] %s :: %s @ %s (%s, config %s)' % (v['rule'], v['status'], v['root'], '>'.join(v['chain']),
                                                         v.get('span'), v['primitive'],
                                                         ','.join(v.get('configs', [v['config']]))))
        print('  %s' % v['what'][:600])
        rc = 1
    wall = time.time() - t0
    level = spec['level']
    cov = {
        'obligations': ob,
        'discharged': dis if rc == 0 else min(dis, ob - n_new),
        'checker_cmd': './check %s --tier %s' % (pid, tier),
        'trusted_base': TRUSTED,
        'samples': samples or [{'note': 'no sample recorded'}],
        'configurations': dict({c: cli.CONFIG_DOC[c] for c in cfgs},
                               **{c: cli.CONFIG_DOC[c] + ' -- mutating roots only' for c in dep_only}),
        'per_configuration': stats,
        'exhaustive': True,
        'rule': 'every obligation generated by the abstract interpretation of every analysis root in every '
                'listed build configuration; an obligation is distinct by (rule, root, inline chain, primitive)',
        'checker_validation': validation,
        'explanation': manifest_text.TEXT.get(pid, {}).get('level') or 'see MANIFEST.json level_claimed',
    }
    ev = {
        'property_id': pid, 'tier': tier, 'seed': seed, 'level': level, 'coverage': cov,
        'assumptions': TRUSTED, 'wall_s': round(wall, 2), 'violations': n_new,
    }
    write_evidence(pid, ev)
    print('%s %s: %d obligations, %d discharged, %d violation(s), %.1fs'
          % (pid, tier, ob, cov['discharged'], n_new, wall))
    return rc


def fired_all(tier='quick'):
    """tool mode (not a registered check): decide every claimed property from ONE set of driver runs and ONE
    interpretation of all roots per configuration; -> {pid: [first reports]} for the properties that would
    report a violation.  Equivalent to running each check separately (same rules, same attribution), but
    ~20x cheaper; used to evaluate seeded changes."""
    from . import cli, witness
    import tempfile
    import shutil
    import concurrent.futures
    from .facts import Facts
    cfgs = ['A', 'B', 'C', 'D', 'F']
    facts_all, merged_all = cli.gather(cfgs)
    out = {}
    wres = None
    known = load_known()
    known_keys = {(k['property'], k['key']) for k in known.get('findings', [])}
    for pid, spec in sorted(PROPS.items()):
        want = spec[tier]
        if pid == 'C06':
            vs, ob, extra = c06_collect({c: f for c, f in facts_all.items() if c in want}, {})
            e2c = spec.get('e2cfgs') or []
            vs += e2_collect(pid, {c: facts_all[c] for c in e2c}, {c: merged_all[c] for c in e2c})[0]
        else:
            want = want + [c for c in DEP_ONLY_CFGS.get(pid, ()) if c not in want]
            vs, ob, dis, samples, stats = e2_collect(pid, {c: facts_all[c] for c in want},
                                                     {c: merged_all[c] for c in want})
        mine = sorted(w for w, ps in witness.SERVES.items() if pid in ps)
        if mine:
            if wres is None:
                wres, _ = witness.run(cli.REPO)
            got = {(r['witness'], r['kind']): r['ok'] for r in wres}
            for w in mine:
                for kind in ('compile_fail', 'twin'):
                    if not got.get((w, kind)):
                        vs.append({'rule': 'WITNESS', 'status': 'refuted', 'root': 'witness/lib.rs', 'chain': [],
                                   'primitive': '%s:%s' % (w, kind), 'what': 'witness failed', 'span': None,
                                   'config': 'witness', 'key': 'WITNESS|%s|%s' % (w, kind)})
        vs = [v for v in vs if (pid, v['key']) not in known_keys]
        if vs:
            seen = set()
            reps = []
            for v in vs:
                if v['key'] in seen:
                    continue
                seen.add(v['key'])
                reps.append('[%s/%s] %s :: %s (%s, config %s) %s' % (v['rule'], v['status'], v['root'], '>'.join(v.get('chain', [])),
                                                                  v['primitive'], v['config'], (v.get('what') or '')[:160]))
            out[pid] = reps[:4]
    return out
