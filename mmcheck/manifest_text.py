"""Texts of MANIFEST.json (kept next to the code that implements what they say)."""

E2 = 'E1 mmdrv (rustc_private MIR fact driver) + E2 mmcheck slot typestate abstract interpreter'
BASE = ('rustc type/borrow checking and MIR construction (incl. drop elaboration); callee resolution; the '
        'semantics of core functions as frozen in mmcheck/models.py; user types contain no unsafe code that '
        'reaches into the container')

ALLP = ['C%02d' % i for i in range(1, 21)]

ENGINES = [
    {'name': 'mmdrv', 'path': 'driver/', 'serves_properties': ALLP,
     'kind_free_text': 'rustc_private driver (RUSTC_WORKSPACE_WRAPPER): exports structured MIR, resolved callees '
                       'and the effect closure (user code / unwinding / dyn / alloc / extern) of every call and drop site'},
    {'name': 'mmcheck', 'path': 'mmcheck/', 'serves_properties': list(ALLP),
     'kind_free_text': 'abstract interpreter over the exported MIR: difference-bound zone over usize terms, slot '
                       'exceptions (holes / extras / ranges) per container, inlining of local callees, models of '
                       'core, unwinding into cleanup blocks, loop-head joins with widening'},
    {'name': 'specs', 'path': 'mmcheck/specs.py', 'serves_properties': ['C01', 'C03', 'C05', 'C07', 'C08', 'C09', 'C10', 'C11', 'C12', 'C13', 'C14', 'C15', 'C16', 'C18', 'C19', 'C20'],
     'kind_free_text': 'outcome schemas derived from the property statements, evaluated on every normal-return path '
                       'the interpreter produces for the anchor roots: path classes (key found at slot h / appended / '
                       'full-prefix miss) are read off the path itself (answers of the user ==, slot events), then '
                       'the final container state, the routing of the supplied/stored key and value objects and '
                       'the returned value are compared with the table'},
    {'name': 'graph', 'path': 'mmcheck/graph.py', 'serves_properties': ['C06', 'C02'],
     'kind_free_text': 'crate graph, reachability over effect closures, type closure, census of unsafe/aliasing primitives'},
]

NOTES = ('Static analysis only: no registered check executes micromap code. Every check re-runs the driver on '
         '/repo\'s working tree in a fresh target directory under $TMPDIR (removed before exit). '
         'selftest.py validates the checker against selftest/mutants and seeded/ in scratch worktrees.')

NOT_APPLICABLE = {
}

TEXT = {
    'C02': {
        'engine': E2,
        'technique': 'abstract interpretation of MIR (slot typestate + difference-bound zone), all obligations discharged',
        'level': 'Proof by abstract interpretation on the polymorphic MIR: at every assume_init_*/get_unchecked* site '
                 'the slot is proved live / in bounds (O1, O2), every write hits a dead slot (no leak), every normal '
                 'return of every public root re-establishes "slot j is live iff j < len" for every container '
                 '(INV), Drop for Map/Drain destroys exactly the remaining live elements, iterator handles range '
                 'over live slots only, no value wrapped in MaybeUninit::new is abandoned on the container\'s own panic, drain() '
                 'empties the container at once (so a forgotten drain cannot leave elements owned twice), and no untamed '
                 'leak/duplication primitive exists in the crate (CENSUS). Holds for '
                 'all K, V, N, fill levels and histories because INV is assumed at entry and re-proved at exit of '
                 'every root, in debug and release MIR.',
        'note': BASE + '; moved-out values are ordinary Rust values whose single destruction is the compiler\'s '
                'drop elaboration (trusted)',
    },
    'C03': {
        'engine': E2,
        'technique': 'abstract interpretation of release-profile MIR: bounds obligation of the append write, state at the panic edge',
        'level': 'Proof obligations on MIR built without debug assertions (and with them): every slot write is '
                 'either a compiler-checked index or has its bound discharged (O1); at the unwinding exit caused by '
                 'the failing bounds check every container satisfies the safe-to-drop invariant with len unchanged '
                 '(ESC-own); len <= N is inductive (CAP); an insertion returns normally with a new entry only '
                 'when len < N held, the last free slot is usable (some accepted append is consistent with len == N-1), '
                 'and a bulk constructor never drops a pulled item silently; conversely (REFUSAL rule) every path on which the crate '
                 'panics by itself -- panic!, assert!, expect, a failing bounds check -- is justified at the panic point by a container '
                 'that is full and was scanned completely for the key without a match (Index/IndexMut: by the complete miss alone), '
                 'so a present key is never refused on a full container.',
        'note': BASE + '; panic=abort profiles and sanitizer observations are out of scope',
    },
    'C04': {
        'engine': E2,
        'technique': 'abstract interpretation of MIR with unwinding edges: safe-to-drop invariant at every escape',
        'level': 'Proof: every unwind edge that the compiler generated for a user callback (eq, borrow, clone, drop, '
                 'closures, source iterators, fmt) is followed into the cleanup blocks; containers dropped by cleanup '
                 'must satisfy O2 in Map::drop, containers that survive (behind &mut) must have no dead slot below '
                 'len and len <= N when unwinding leaves the root. One panic per run (a second one aborts).',
        'note': BASE,
    },
    'C05': {
        'engine': E2,
        'technique': 'abstract interpretation of MIR: representation invariant at every normal and unwinding exit',
        'level': 'Proof for the len/prefix clauses: INV at every return and the safe-to-drop invariant after '
                 'container-raised panics, len <= N inductive, every iterator handle ranges over live slots of '
                 '[0,len). Key uniqueness: every slot that joins the live prefix does so only after a completed scan of the '
                 'whole prefix for that very key (APPEND-AFTER-MISS; positional clones of another container exempt), and no '
                 'stored key is ever handed to user code by mutable reference (KEYMUT); is_empty/len/capacity report the '
                 'len field / N.',
        'note': BASE + '; lawful Eq is needed for "pairwise unequal keys", not for the clauses proved here',
    },
    'C17': {
        'engine': E2,
        'technique': 'abstract interpretation with every user callback result universally quantified',
        'level': 'Proof: the interpreter gives every user call (eq, borrow, clone, closures, iterators) an arbitrary '
                 'result on every invocation and never assumes key uniqueness or lawfulness; the discharged O1/O2/'
                 'INV/ESC/CAP obligations therefore hold under arbitrary Eq/Borrow behaviour. Zone facts only come '
                 'from integer comparisons, MIR asserts and the core models.',
        'note': BASE,
    },
    'C06': {
        'engine': 'E1 mmdrv effect closures + graph rules; E2 mmcheck slot interpreter for the element-reference clause',
        'technique': 'reachability over the resolved call graph through core\'s generic MIR; crate graph; type closure; '
                     'abstract interpretation of MIR with reference provenance (rule INSIDE)',
        'level': 'Proof: the default build links only core (and is #![no_std]); in every configuration (std and '
                 'serde features included) no instance reachable from any micromap body through core\'s own MIR is an '
                 'allocator entry or lives outside core/micromap; no field of any type mentions alloc/std types, raw '
                 'pointers or statics; storage is an inline [MaybeUninit<(K,V)>; N]; and on every normal-return path of '
                 'the 27 roots whose result is an element reference (lookups, Index/IndexMut, Set::get, the entry API, '
                 'next() of the borrowing and lazy set iterators) every reference in the result has the provenance '
                 '"slot of a container the caller owns" (INSIDE; dev and release MIR).',
        'note': 'callee resolution by rustc; functions of core without MIR are non-generic core code (core has no allocator); '
                'user trait methods (K: Clone, S: Serializer, ...) are excluded as in the statement',
    },
}

SCHEMA = 'E1 mmdrv + E2 mmcheck slot interpreter + outcome schemas (mmcheck/specs.py)'
PARTIAL = ('Decides the listed per-operation clauses for all K, V, N, fill levels and callback behaviours at once '
           '(generic MIR, debug and release). NOT decided: the inductive step from per-operation schemas to whole '
           'histories (DESIGN.md §5, paper argument), and anything that depends on the lawfulness of the user Eq/Borrow.')
TEXT.update({
    'C12': {
        'engine': SCHEMA,
        'technique': 'abstract interpretation of MIR with value provenance tags: routing table of supplied/stored key and value objects',
        'level': 'Proof (the property is a data-flow property): on every normal-return path of every insertion root '
                 '(insert, checked_insert in both branches, insert_key_value, insert_unchecked, Set::insert, '
                 'Set::replace, VacantEntry::insert, Entry::or_insert*, OccupiedEntry::insert) the slot whose key '
                 'compared equal ends up holding exactly (originally stored key | supplied key, supplied value) as '
                 'the statement demands, no other slot changes, and the displaced objects are what is returned; '
                 'get_key_value, Set::get, take, remove_entry and OccupiedEntry::key expose the key of the matching slot itself. '
                 'The bulk insertion paths (FromIterator, From<[_; N]>, Extend, and -- on the serde build -- the deserialisation '
                 'visitors) are covered through their per-item schema: for a repeated key the first key object stays.',
        'note': BASE + '; mem::replace model; the dropped/returned fate of moved-out values is the compiler\'s drop elaboration',
    },
    'C01': {
        'engine': SCHEMA,
        'technique': 'abstract interpretation of MIR: per-operation outcome schemas (found / appended / full-prefix miss) against the dictionary table',
        'level': 'Partial (level other). For insert, insert_key_value, checked_insert, get, get_mut, get_key_value, '
                 'contains_key, Index/IndexMut, remove, remove_entry: every normal-return path is classified by what '
                 'happened on it (user == answered true for slot h and the supplied key / a slot was appended after '
                 'every live key answered false / full-prefix miss) and the final len, the touched slots, their '
                 'contents and the returned value must equal the row of the ideal-dictionary table; "not found" is '
                 'only accepted after a completed scan of [0,len); Index returns normally only on the found class; the crate panics by itself only to refuse a new key on a full container or to index an absent key (REFUSAL rule, justified at the panic point). '
                 + PARTIAL,
        'note': BASE,
    },
    'C07': {
        'engine': SCHEMA,
        'technique': 'abstract interpretation of MIR through the inlined Map methods: result truth tables and state schemas of the Set operations',
        'level': 'Partial (level other). Set::insert/replace/contains/get/remove/take are interpreted through the '
                 'inlined Map code; on each path class (present / absent) the boolean or Option result and the '
                 'resulting container state must equal the ideal-set table (insert true iff appended, remove/contains '
                 'true iff a key matched, take/get/replace return the stored element). retain: per iteration the '
                 'element is removed iff the predicate answered false (swap-remove shape), and the predicate is '
                 'called at most once per element (ASKED-ONCE, tracked across loops and element moves); extend: '
                 'one key-keeping insert per pulled item. ' + PARTIAL,
        'note': BASE,
    },
    'C11': {
        'engine': SCHEMA,
        'technique': 'abstract interpretation of MIR: entry classification, arm/closure call discipline, slot schemas of the Entry API',
        'level': 'Partial (level other). entry(k) yields Occupied(index of the slot whose key matched) or, only '
                 'after a completed full-prefix miss, Vacant(k); or_insert/or_insert_with/or_insert_with_key/'
                 'or_default run their closure exactly once on the vacant arm and never on the occupied arm and '
                 'return a reference to the value of the entry\'s slot; and_modify runs its closure exactly once on '
                 'the occupied value and never when vacant; OccupiedEntry key/get/get_mut/into_mut/insert/remove/'
                 'remove_entry and VacantEntry insert/into_key have the slot-level schemas of the direct map '
                 'operations and touch no other slot. ' + PARTIAL,
        'note': BASE,
    },
    'C18': {
        'engine': SCHEMA,
        'technique': 'abstract interpretation of MIR under the documented contract: sibling agreement of insert_unchecked with insert',
        'level': 'Partial (level other). insert_unchecked is interpreted under its documented precondition (two '
                 'passes: map not full / full and nothing appended) and must satisfy the very same outcome and '
                 'routing table as insert on every path; all other unsafe obligations of the body are discharged '
                 '(the safety rules that fail inside insert_unchecked / get_disjoint_unchecked_mut count for C18 as well); under '
                 'the disjunct "full map, key present" insert_unchecked must still return normally (debug and release). '
                 'get_disjoint_unchecked_mut is the body the safe method runs after its precheck. '
                 + PARTIAL,
        'note': BASE + '; the contract is the only assumption and is injected at exactly one point',
    },
})

TEXT.update({
    'C08': {
        'engine': SCHEMA,
        'technique': 'abstract interpretation of MIR: membership polarity of the lazy set iterators (next and fold), composition of union/symmetric difference, affine size hints, quantifier schemas of is_subset/is_superset/is_disjoint',
        'level': 'Partial (level other). Difference/DifferenceRef/Intersection: next() yields a reference to an element '
                 'of the LEFT operand only after that element was looked up in the right operand with the required '
                 'outcome (complete miss / hit), skips only elements with the opposite outcome, and leaves the cursor '
                 'right behind the yielded element; fold() passes exactly those elements to the closure, once each, front to back '
                 '(sibling agreement with next); count() (when overridden) must equal the number of kept elements -- decided with '
                 'a ghost counter per loop; size_hint is evaluated symbolically as an affine expression and must '
                 'satisfy lower <= max(0, remaining - other.len()) resp. 0, upper >= remaining resp. '
                 'min(remaining, other.len()); union()/symmetric_difference() must be the stated chain of parts over '
                 'the full prefixes; Union/SymmetricDifference next/size_hint/fold/count are decided element-wise over '
                 'their parts (plain or filtered cursor), whatever the struct layout: a yielded element comes from '
                 'exactly one part whose cursor ends right behind it and, for a filtered part, after the required lookup '
                 'outcome; None only when every part is exhausted; hints are sums of per-part bounds; fold/count treat '
                 'each element as that part\'s next would; '
                 '`&a - &b` puts a clone of an element of a into the result iff it was looked up in b and not found; '
                 'is_subset/is_superset/is_disjoint may return true only after every element of the right operand was '
                 'examined with the right lookup outcome and false only on a witness (or, for is_subset, when '
                 'len(self) > len(other) is entailed); operands are never modified; unknown Iterator overrides on these '
                 'types are reported as unproven. ' + PARTIAL,
        'note': BASE + '; semantics of core::iter::Chain/find/fold/all/any as modelled',
    },
    'C09': {
        'engine': SCHEMA,
        'technique': 'abstract interpretation of MIR: cursor schemas of the borrowing iterators (projection, advance-by-one, exact counts)',
        'level': 'Partial (level other). iter/iter_mut/keys/values/values_mut/Set::iter/&-into_iter create a cursor '
                 'over exactly [0,len); next() of Iter/IterMut/Keys/Values/ValuesMut/SetIter returns the stated '
                 'projection of the first remaining slot and advances the cursor by exactly one, or returns None only '
                 'when nothing remains and then leaves the iterator unchanged (fused); size_hint/len/count equal the '
                 'number of remaining elements exactly; clone() continues at the same position; item references point '
                 'into the slot itself (so writes through iter_mut/values_mut land where lookups read). Unknown '
                 'Iterator overrides on these types are reported as unproven. Not decided: core\'s slice iterator '
                 '(trusted: each element once, in order).',
        'note': BASE,
    },
    'C10': {
        'engine': SCHEMA,
        'technique': 'abstract interpretation of MIR: pop/drain schemas of the consuming iterators',
        'level': 'Partial (level other). into_iter/into_keys/into_values hand the unchanged container to the iterator; '
                 'next() of IntoIter/IntoKeys/IntoValues/SetIntoIter moves out exactly the last live element, '
                 'decrements len by one and returns the stated projection, or returns None only when len == 0, changing '
                 'nothing; drain() returns a cursor over exactly [0,len) and leaves len == 0 at once; Drain/SetDrain::next '
                 'move exactly the yielded element out and advance by one; exact size_hint/len/count. The remaining '
                 'elements are destroyed exactly once by Map::drop / Drain::drop (C02 rules; HANDLE-DROP: when the '
                 'owning handle is gone nothing it owned may still be live, whether or not its cursor passed it). Unknown Iterator '
                 'overrides are reported as unproven.',
        'note': BASE,
    },
    'C13': {
        'engine': SCHEMA,
        'technique': 'census of aliasing primitives + who-may-call + must-pass-through on the interpreted paths of get_disjoint_mut',
        'level': 'Partial (level other). No untamed raw pointer, transmute, pointer cast or unmodelled unsafe primitive exists '
                 'in the crate (the returned &mut V are carved by split_at_mut, so the borrow checker certifies '
                 'disjointness); get_disjoint_unchecked_mut is called only from get_disjoint_mut; on every path of '
                 'get_disjoint_mut that touches the container the pre-check loop ran to its end and no comparison of two '
                 'request keys answered "equal" (those paths panic); all unchecked accesses of the body are discharged '
                 '(O1/O2); the pre-check is shown to compare EVERY pair i < j < J of the request array before the container is '
                 'touched (positions of the caller\'s array are tracked; PAIRS rule); every answer written for request j is the '
                 'value of a slot whose key was seen to match request j (AGREE rule: the index list only ever receives '
                 'recorded matches, and an answer must be backed by a pair read back from it); while the requests are scanned for a '
                 'stored key through find/position/any/all, a request is declared (non-)matching only by the answer of the user == '
                 '(ANSWER rule: a size pre-filter or a constant in the predicate is refuted). NOT decided in general: completeness '
                 'for hand-written request loops (a present key always gets an answer). A word-sized bit set standing for slots '
                 'or requests (`1 << i`) is refuted by the SHIFT rule: every shift amount must be provably below the width of the '
                 'shifted value (otherwise the operation panics with overflow checks on and aliases modulo the width with them off).',
        'note': BASE,
    },
    'C14': {
        'engine': SCHEMA,
        'technique': 'abstract interpretation of MIR: what each truth value of eq may rest on (zone entailment of the lengths, lookup outcomes, value comparisons)',
        'level': 'Partial (level other). Map::eq / Set::eq: true is returned only on paths where len(self) == len(other) '
                 'is entailed and every element of one operand was looked up in the other, found, and (maps) its value '
                 'compared equal with the value stored under the matching key; false only on a witness (key missing from '
                 'the other operand / unequal values) or when the lengths are not equal; neither operand is modified. '
                 'Reflexivity/symmetry follow from key uniqueness and a lawful Eq (not decided).',
        'note': BASE,
    },
    'C15': {
        'engine': SCHEMA,
        'technique': 'abstract interpretation of MIR: per-element clone schema and result schema of Map::clone / Set::clone',
        'level': 'Partial (level other). The clone is a fresh container built inside the call (no shared storage is '
                 'possible by type), has the length of the original, each loop iteration clones the key and the value '
                 'of one source slot exactly once and writes them to the slot with the same index, nothing is cloned '
                 'into slots beyond len and no slot below len stays unwritten, and the original is '
                 'not modified. That the clone compares equal follows from a lawful Clone/Eq (not decided).',
        'note': BASE + '; the tuple CloneShim calls K::clone and V::clone once each (compiler generated)',
    },
    'C16': {
        'engine': SCHEMA,
        'technique': 'abstract interpretation of MIR: per-item schema of the bulk constructors (one key-keeping insert per pulled item)',
        'level': 'Partial (level other). FromIterator (Map, Set), From<[_; N]>, Extend<T>/Extend<&T>: the result is built '
                 'from new() (or self), the source is turned into an iterator once, each loop iteration advances the '
                 'source exactly once and performs exactly one insertion of that very item: appended after a full miss, '
                 'or (repeated key) the first key object is kept, the new value stored, no capacity consumed; extend inserts into the receiver itself (not into a temporary that replaces it afterwards: the two differ when a later item or the source panics). Not '
                 'decided: that a panic occurs exactly when more than N distinct keys arrive (follows from C03 + C05).',
        'note': BASE,
    },
    'C19': {
        'engine': SCHEMA,
        'technique': 'abstract interpretation of MIR: which slots reach the formatter (per-entry schema of the rendering loops, counted cursor advances)',
        'level': 'Partial (level other): the LISTING clause only -- which entries are rendered, not the text. For Debug and '
                 'Display of Map and Set and Debug of Iter, IterMut, Keys, Values, ValuesMut, Drain, IntoIter, IntoKeys, '
                 'IntoValues: every round of the rendering loop passes over exactly one element of the range the receiver '
                 'still has to show (the live prefix of the container / the not-yet-yielded range of the cursor) and hands '
                 'exactly the stated projection of that element (key and value in that order / key / value) to the '
                 'formatter, once; on every path that was not cut short by a formatter error the number of elements '
                 'passed over equals the size of that range (counted in the abstract state), so no entry is missing, '
                 'repeated, already yielded or taken from a dead slot; Map and Set are rendered front to back; the '
                 'container is not modified. Debug of the lazy set-algebra iterators: the value handed to entries() is '
                 'equal to the receiver (a faithful copy), so what is listed is what the iterator itself would yield '
                 '(C08). NOT decided (run-time strings; an exact-text rule would be a frozen-literal proxy): braces, '
                 'separators, the `key: value` punctuation, the alternate form -- the existing tests compare those '
                 'strings for small containers.',
        'note': BASE + '; core::fmt builders (DebugList/DebugSet/DebugMap::entries format every item of the iterator they are given, in order) as modelled in mmcheck/models.py',
    },
    'C20': {
        'engine': SCHEMA,
        'technique': 'abstract interpretation of the MIR of the serde feature build: serializer/visitor call discipline and error propagation',
        'level': 'Partial (level other; configurations --features serde in the dev AND the release profile, so that work placed inside debug_assert! is seen to vanish). Serialize: the serializer is told Some(len()) '
                 'exactly once, exactly one entry/element consisting of the key (and value) of one stored slot is '
                 'emitted per element of the full prefix, every serializer error is propagated (the loop goes on only '
                 'after the call result was examined and found Ok), the result is that of '
                 'end(). Visitor: builds from new(), one key-keeping insert per entry pulled, returns Ok only after the '
                 'source itself reported the end, propagates access errors, refuses input by itself only when the '
                 'announced length provably exceeds N. Deserialize hands the visitor over once. NOT decided: equality '
                 'after the round trip (depends on the wire format).',
        'note': BASE + '; serde traits are user code (arbitrary results, may unwind)',
    },
})

# assume / guarantee (mmcheck/props.py OBSERVERS): said once here, appended to the level text of each observer
_DEP = (' Assume/guarantee: the schemas above are judged on entry states in which every container satisfies the '
        'invariant (live prefix, len <= N, keys pairwise unequal); the check therefore also interprets the mutating '
        'roots (insert*, remove*, retain, clear, drain, entry API, bulk constructors; also those of the serde build: '
        'the deserialisation visitors) and counts a REFUTED invariant '
        'rule at one of their exits (INV, ESC-own, ESC-user, APPEND-AFTER-MISS) as a violation of this property.')
for _p in ('C08', 'C09', 'C10', 'C14', 'C15', 'C19', 'C20'):
    TEXT[_p]['level'] = TEXT[_p]['level'] + _DEP
