"""Texts of MANIFEST.json (kept next to the code that implements what they say)."""

E2 = 'E1 mmdrv (rustc_private MIR fact driver) + E2 mmcheck slot typestate abstract interpreter'
BASE = ('rustc type/borrow checking and MIR construction (incl. drop elaboration); callee resolution; the '
        'semantics of core functions as frozen in mmcheck/models.py; user types contain no unsafe code that '
        'reaches into the container')

ENGINES = [
    {'name': 'mmdrv', 'path': 'driver/', 'serves_properties': ['C02', 'C03', 'C04', 'C05', 'C06', 'C17'],
     'kind_free_text': 'rustc_private driver (RUSTC_WORKSPACE_WRAPPER): exports structured MIR, resolved callees '
                       'and the effect closure (user code / unwinding / dyn / alloc / extern) of every call and drop site'},
    {'name': 'mmcheck', 'path': 'mmcheck/', 'serves_properties': ['C02', 'C03', 'C04', 'C05', 'C17'],
     'kind_free_text': 'abstract interpreter over the exported MIR: difference-bound zone over usize terms, slot '
                       'exceptions (holes / extras / ranges) per container, inlining of local callees, models of '
                       'core, unwinding into cleanup blocks, loop-head joins with widening'},
    {'name': 'graph', 'path': 'mmcheck/graph.py', 'serves_properties': ['C06', 'C02'],
     'kind_free_text': 'crate graph, reachability over effect closures, type closure, census of unsafe/aliasing primitives'},
]

NOTES = ('Static analysis only: no registered check executes micromap code. Every check re-runs the driver on '
         '/repo\'s working tree in a fresh target directory under $TMPDIR (removed before exit). '
         'selftest.py validates the checker against selftest/mutants and seeded/ in scratch worktrees.')

NOT_APPLICABLE = {
    'C19': 'the property is about exact rendered strings (run-time values); no sound static rule in reach decides '
           'it, and a literal-comparison rule would be a frozen-text proxy (DESIGN.md §6.C19)',
}

TEXT = {
    'C02': {
        'engine': E2,
        'technique': 'abstract interpretation of MIR (slot typestate + difference-bound zone), all obligations discharged',
        'level': 'Proof by abstract interpretation on the polymorphic MIR: at every assume_init_*/get_unchecked* site '
                 'the slot is proved live / in bounds (O1, O2), every write hits a dead slot (no leak), every normal '
                 'return of every public root re-establishes "slot j is live iff j < len" for every container '
                 '(INV), Drop for Map/Drain destroys exactly the remaining live elements, iterator handles range '
                 'over live slots only, and no leak/duplication primitive exists in the crate (CENSUS). Holds for '
                 'all K, V, N, fill levels and histories because INV is assumed at entry and re-proved at exit of '
                 'every root, in debug and release MIR.',
        'note': BASE + '; moved-out values are ordinary Rust values whose single destruction is the compiler\'s '
                'drop elaboration (trusted)',
    },
    'C03': {
        'engine': E2,
        'technique': 'abstract interpretation of release-profile MIR: bounds obligation of the append write, state at the panic edge',
        'level': 'Proof obligations on MIR built without debug assertions (and with them): every slot write is '
                 'either a compiler-checked index or has its bound discharged (O1); at the unwinding exit caused by '
                 'the failing bounds check every container satisfies the safe-to-drop invariant with len unchanged '
                 '(ESC-own); len <= N is inductive (CAP).',
        'note': BASE + '; panic=abort profiles and sanitizer observations are out of scope',
    },
    'C04': {
        'engine': E2,
        'technique': 'abstract interpretation of MIR with unwinding edges: safe-to-drop invariant at every escape',
        'level': 'Proof: every unwind edge that the compiler generated for a user callback (eq, borrow, clone, drop, '
                 'closures, source iterators, fmt) is followed into the cleanup blocks; containers dropped by cleanup '
                 'must satisfy O2 in Map::drop, containers that survive (behind &mut) must have no dead slot below '
                 'len and len <= N when unwinding leaves the root. One panic per run (a second one aborts).',
        'note': BASE,
    },
    'C05': {
        'engine': E2,
        'technique': 'abstract interpretation of MIR: representation invariant at every normal and unwinding exit',
        'level': 'Proof for the len/prefix clauses: INV at every return and the safe-to-drop invariant after '
                 'container-raised panics, len <= N inductive, every iterator handle ranges over live slots of '
                 '[0,len). Key uniqueness itself is a behavioural clause decided separately (not by these obligations).',
        'note': BASE + '; lawful Eq is needed for "pairwise unequal keys", not for the clauses proved here',
    },
    'C17': {
        'engine': E2,
        'technique': 'abstract interpretation with every user callback result universally quantified',
        'level': 'Proof: the interpreter gives every user call (eq, borrow, clone, closures, iterators) an arbitrary '
                 'result on every invocation and never assumes key uniqueness or lawfulness; the discharged O1/O2/'
                 'INV/ESC/CAP obligations therefore hold under arbitrary Eq/Borrow behaviour. Zone facts only come '
                 'from integer comparisons, MIR asserts and the core models.',
        'note': BASE,
    },
    'C06': {
        'engine': 'E1 mmdrv effect closures + graph rules',
        'technique': 'reachability over the resolved call graph through core\'s generic MIR; crate graph; type closure',
        'level': 'Proof: the default build links only core (and is #![no_std]); in every configuration (std and '
                 'serde features included) no instance reachable from any micromap body through core\'s own MIR is an '
                 'allocator entry or lives outside core/micromap; no field of any type mentions alloc/std types, raw '
                 'pointers or statics; storage is an inline [MaybeUninit<(K,V)>; N].',
        'note': 'callee resolution by rustc; functions of core without MIR are non-generic core code (core has no allocator); '
                'user trait methods (K: Clone, S: Serializer, ...) are excluded as in the statement',
    },
}
