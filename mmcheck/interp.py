"""E2 — slot typestate abstract interpreter over the MIR exported by mmdrv (DESIGN.md §2.2)."""
import collections
from .zone import Zone, Term, fresh, ZERO
from .state import (freeze, State, MapState, MOVED, UNIT, TRUE, FALSE, I, OPTION, RESULT, CFLOW, NONE, some,
                    map_terms, terms_of, is_persistent)
from . import slots
from .slots import Unproven
from .facts import MU, ty_is_mu, ty_str

SLICE_ITER = 'core::slice::iter::Iter'
SLICE_ITERMUT = 'core::slice::iter::IterMut'
RANGE = 'core::ops::range::Range'

ENUM_VARIANTS = {
    # path -> list of (variant name, [index of the generic arg that is the field type])
    OPTION: [('None', []), ('Some', [0])],
    RESULT: [('Ok', [0]), ('Err', [1])],
    CFLOW: [('Continue', [1]), ('Break', [0])],
}

MAX_STEPS = 400000
WIDEN_AFTER = 3


class Pruned(Exception):
    """the current path is outside the documented contract of an unsafe entry point"""


class Violation:
    def __init__(self, rule, status, root, chain, prim, what, span, config):
        self.unwinding = False
        self.rule = rule
        self.status = status
        self.root = root
        self.chain = chain
        self.prim = prim
        self.what = what
        self.span = span
        self.config = config
        self.props = None

    @property
    def key(self):
        return '%s|%s|%s|%s' % (self.rule, self.root, '>'.join(self.chain), self.prim)

    def to_json(self):
        return {'rule': self.rule, 'status': self.status, 'root': self.root, 'chain': list(self.chain),
                'primitive': self.prim, 'what': self.what, 'span': self.span, 'config': self.config,
                'key': self.key, 'unwinding': self.unwinding, 'props': self.props}

    def __repr__(self):
        return '[%s/%s] %s :: %s @ %s (%s) — %s' % (self.rule, self.status, self.root,
                                                   '>'.join(self.chain), self.span, self.prim, self.what)


class Outcome:
    """result of running a root to one exit"""
    def __init__(self, kind, st, val):
        self.kind = kind
        self.st = st
        self.val = val


def tag_eq(z, a, b):
    """structural equality of provenance tags; index terms are compared in the zone"""
    if isinstance(a, (Term, int)) and not isinstance(a, bool) and isinstance(b, (Term, int)) and not isinstance(b, bool):
        return a is b or a == b or z.entails_eq(a, b)
    if isinstance(a, tuple) and isinstance(b, tuple):
        return len(a) == len(b) and all(tag_eq(z, x, y) for x, y in zip(a, b))
    return a == b


# symbolic affine expressions over usize terms: ('aff', ((term, coeff), ...), const)
def to_aff(v):
    if v[0] == 'int':
        if isinstance(v[1], int):
            return ((), v[1])
        return (((v[1], 1),), 0)
    if v[0] == 'slen':
        out = {}
        for t, c in ((v[2], 1), (v[1], -1)):
            if isinstance(t, int):
                out['#'] = out.get('#', 0) + c * t
            else:
                out[t] = out.get(t, 0) + c
        k = out.pop('#', 0)
        return (tuple(sorted(((t, c) for t, c in out.items() if c), key=lambda x: x[0].name)), k)
    if v[0] == 'aff':
        return (v[1], v[2])
    return None


def aff_add(a, b, sign):
    out = {}
    for t, c in a[0]:
        out[t] = out.get(t, 0) + c
    for t, c in b[0]:
        out[t] = out.get(t, 0) + sign * c
    return (tuple(sorted(((t, c) for t, c in out.items() if c), key=lambda x: x[0].name)), a[1] + sign * b[1])


def aff_norm(a):
    terms, k = a
    if not terms and k >= 0:
        return ('int', k)
    if len(terms) == 1 and terms[0][1] == 1 and k == 0:
        return ('int', terms[0][0])
    if len(terms) == 2 and k == 0 and sorted(c for _, c in terms) == [-1, 1]:
        pos = [t for t, c in terms if c == 1][0]
        neg = [t for t, c in terms if c == -1][0]
        return ('slen', neg, pos)
    return ('aff', terms, k)


def add_values(x, y):
    """x + y for abstract usize values: an affine value when both are affine, else a structural ('sum', (..))"""
    ax, ay = to_aff(x), to_aff(y)
    if ax is not None and ay is not None:
        return aff_norm(aff_add(ax, ay, 1))
    xs = x[1] if x[0] == 'sum' else (x,)
    ys = y[1] if y[0] == 'sum' else (y,)
    return ('sum', tuple(xs) + tuple(ys))


def short(bid):
    s = bid
    for a in ('<', '>'):
        pass
    return s.split('::')[-1] if '{closure' not in s else '::'.join(s.split('::')[-2:])


class Interp:
    def __init__(self, facts, config=None):
        self.facts = facts
        self.config = config or facts.config
        self.violations = []
        self.vkeys = set()
        self.n_oblig = collections.Counter()
        self.n_ok = collections.Counter()
        self.n_oblig_p = collections.Counter()   # obligations attributed to a property by the schema itself
        self.n_ok_p = collections.Counter()
        self.samples = collections.defaultdict(list)
        self.stats = collections.Counter()
        self.root = None
        self.chain = []
        self.cur_span = None
        self.container_paths = self._find_containers()
        self.impl_index = self._index_impls()
        from . import models
        self.models = models.REGISTRY
        self.models_mod = models
        self.unmodelled = collections.Counter()
        self.contract = None
        self.sites_seen = collections.defaultdict(set)
        self.cover = set()

    # ------------------------------------------------------------------ crate structure
    def _find_containers(self):
        out = {}
        for path, a in self.facts.adts.items():
            if a['kind'] != 'Struct':
                continue
            fields = a['variants'][0]['fields']
            arr = [i for i, f in enumerate(fields)
                   if f['ty'].get('k') == 'array' and ty_is_mu(f['ty']['elem'])]
            ints = [i for i, f in enumerate(fields)
                    if f['ty'].get('k') == 'prim' and f['ty']['name'] == 'usize']
            if len(arr) == 1 and len(ints) == 1 and len(fields) == 2:
                out[path] = {'len': ints[0], 'pairs': arr[0], 'cap': fields[arr[0]]['ty']['len']}
        return out

    def _index_impls(self):
        idx = {}
        for b in self.facts.bodies.values():
            if b.impl and b.impl.get('trait') and b.impl['self'].get('k') == 'adt':
                idx[(b.impl['trait'], b.impl['self']['path'], b.name)] = b.id
            if b.impl and b.impl.get('trait') and b.impl['self'].get('k') == 'ref' \
                    and b.impl['self']['to'].get('k') == 'adt':
                idx[(b.impl['trait'], '&' + b.impl['self']['to']['path'], b.name)] = b.id
        return idx

    # ------------------------------------------------------------------ reporting
    def site(self):
        return tuple(short(c) for c in self.chain)

    def oblig(self, rule, ok, prim, what, status='refuted', sample=None, props=None):
        self.n_oblig[rule] += 1
        if props:
            for pp in props:
                self.n_oblig_p[pp] += 1
                if ok:
                    self.n_ok_p[pp] += 1
        self.sites_seen[rule].add((self.root, self.site(), prim))
        if self.chain:
            self.cover.add((self.chain[-1], prim))
        if ok:
            self.n_ok[rule] += 1
            if sample is not None and len(self.samples[rule]) < 6:
                self.samples[rule].append({'root': self.root, 'chain': list(self.site()), 'primitive': prim,
                                           'span': self.cur_span, 'status': 'discharged', 'facts': sample})
            return True
        self.violate(rule, status, prim, what, props)
        return False

    def violate(self, rule, status, prim, what, props=None):
        v = Violation(rule, status, self.root, self.site(), prim, what, self.cur_span, self.config)
        v.props = list(props) if props else None
        v.unwinding = bool(getattr(self, 'in_unwind', False))
        if v.key not in self.vkeys:
            self.vkeys.add(v.key)
            self.violations.append(v)

    # ------------------------------------------------------------------ types
    def subst_ty(self, ty, m):
        if not m or ty is None:
            return ty
        k = ty.get('k')
        if k == 'param':
            return m.get(ty['name'], ty)
        if k in ('ref', 'rawptr'):
            return dict(ty, to=self.subst_ty(ty['to'], m))
        if k == 'tuple':
            return dict(ty, elems=[self.subst_ty(e, m) for e in ty['elems']])
        if k == 'array':
            ln = ty['len']
            if ln in m and m[ln].get('k') == 'const':
                ln = m[ln]['v']
            return dict(ty, elem=self.subst_ty(ty['elem'], m), len=ln)
        if k == 'slice':
            return dict(ty, elem=self.subst_ty(ty['elem'], m))
        if k == 'adt':
            na = []
            for a in ty['args']:
                if a.get('k') == 'const':
                    if a['v'] in m and m[a['v']].get('k') == 'const':
                        na.append(m[a['v']])
                    else:
                        na.append(a)
                else:
                    na.append(self.subst_ty(a, m))
            return dict(ty, args=na)
        return ty

    def adt_field_tys(self, ty, variant):
        """field types of a (local or known core) ADT type instance"""
        path = ty['path']
        if path in ENUM_VARIANTS:
            vs = ENUM_VARIANTS[path]
            targs = [a for a in ty['args']]
            return [targs[i] if i < len(targs) else None for i in vs[variant][1]]
        a = self.facts.adts.get(path)
        if a is None:
            return None
        gens = [g for g in a['generics'] if g['kind'] != 'lifetime']
        m = {}
        for g, arg in zip(gens, ty['args']):
            m[g['name']] = arg
        return [self.subst_ty(f['ty'], m) for f in a['variants'][variant]['fields']]

    def const_term(self, st, v, gs):
        """const generic argument / array length string -> int or Term"""
        v = str(v)
        if v.isdigit():
            return int(v)
        if v.endswith('_usize') and v[:-6].isdigit():
            return int(v[:-6])
        if gs and v in gs:
            return gs[v]
        # a const generic that the inlining context does not bind: unknown, never aliased by name
        t = fresh('$cap_' + ''.join(ch for ch in v if ch.isalnum()))
        st.zone.touch(t)
        return t

    # ------------------------------------------------------------------ containers
    def new_map(self, st, cap, name, inv=True, length=None, phantom=False):
        mid = st.new_id('m')
        if length is None:
            length = Term('$len.%s' % mid) if inv else 0
        ms = MapState(length, cap, name)
        ms.phantom = phantom
        ms.borrowed = phantom
        st.zone.touch(length)
        st.zone.touch(cap)
        if inv:
            st.zone.add_le(length, cap)
        else:
            ms.len0 = None
        st.maps[mid] = ms
        return mid

    def mk_unknown(self, st, ty, tag, gs, owner_adt=None, depth=0):
        if depth == 0:
            self.invalidate_examined(st, tag)
        if ty is None or depth > 8:
            return ('opq', tag)
        k = ty.get('k')
        if k == 'prim':
            n = ty['name']
            if n == 'bool':
                return ('boolu', tag)
            if n in ('usize', 'u8', 'u16', 'u32', 'u64', 'u128', 'isize'):
                t = fresh('u')
                st.zone.touch(t)
                return I(t)
            return ('opq', tag)
        if k == 'tuple':
            return ('tuple', tuple(self.mk_unknown(st, e, tag + (i,), gs, None, depth + 1)
                                   for i, e in enumerate(ty['elems'])))
        if k == 'ref':
            to = ty['to']
            tk = to.get('k')
            if tk == 'adt' and (to['path'] in self.container_paths or to.get('local')):
                oid = st.new_id('o')
                st.objs[oid] = MOVED      # reserve the id before nested allocations
                inner = self.mk_unknown(st, to, tag + ('*',), gs, None, depth + 1)
                st.objs[oid] = inner
                st.keep = st.keep | {oid}
                self.mark_borrowed(st, inner)
                return ('ref', ty['mut'], ('O', oid, ()))
            if tk in ('slice', 'array'):
                if ty_is_mu(to['elem']):
                    mid = self.new_map(st, fresh('$cap'), 'phantom', phantom=True)
                    ms = st.maps[mid]
                    lo, hi = fresh('u'), fresh('u')
                    st.zone.add_le(lo, hi)
                    st.zone.add_le(hi, ms.len)
                    return ('ref', ty['mut'], ('slice', mid, lo, hi))
                oid = st.new_id('o')
                ln = self.const_term(st, to['len'], gs) if tk == 'array' else fresh('u')
                st.zone.touch(ln)
                st.objs[oid] = ('oarr' if tk == 'array' else 'oslice', tag, ln)
                st.keep = st.keep | {oid}
                return ('ref', ty['mut'], ('O', oid, ()))
            if tk == 'tuple' or (tk == 'prim' and to['name'] in ('usize', 'bool')):
                # plain data behind a reference: materialise it so that reads see integers
                oid = st.new_id('o')
                st.objs[oid] = MOVED
                st.objs[oid] = self.mk_unknown(st, to, tag + ('*',), gs, None, depth + 1)
                return ('ref', ty['mut'], ('O', oid, ()))
            return ('ref', ty['mut'], ('opq', tag))
        if k == 'array':
            ln = self.const_term(st, ty['len'], gs)
            st.zone.touch(ln)
            if depth == 0:
                # an array handed in by the caller: pairwise comparisons of its elements are tracked
                st.pairs.setdefault(tag, (0, 1, ln))
            return ('oarr', tag, ln)
        if k == 'adt':
            path = ty['path']
            if path in self.container_paths:
                info = self.container_paths[path]
                # capacity = the const generic argument named by the array length
                a = self.facts.adts[path]
                gens = [g for g in a['generics'] if g['kind'] != 'lifetime']
                cap = None
                for g, arg in zip(gens, ty['args']):
                    if g['name'] == info['cap'] and arg.get('k') == 'const':
                        cap = self.const_term(st, arg['v'], gs)
                if cap is None:
                    cap = fresh('$cap')
                mid = self.new_map(st, cap, path)
                return ('map', mid)
            if path in (SLICE_ITER, SLICE_ITERMUT) and ty['args'] and ty_is_mu(ty['args'][0]):
                mid = self.new_map(st, fresh('$cap'), 'phantom', phantom=True)
                ms = st.maps[mid]
                # positions are relative: WLOG the cursor of an iterator handed in from outside stands at
                # slot 0 of "its" container (the slot algebra is translation invariant), which keeps
                # index arithmetic on the remaining slice exact
                lo, hi = 0, Term('$back.' + mid)
                st.zone.touch(hi)
                owned = bool(owner_adt and self.facts.adts.get(owner_adt, {}).get('has_drop')
                             and path == SLICE_ITERMUT)
                if owned:
                    # the handle owns its remaining elements: nobody else covers them
                    st.zone.add_eq(ms.len, 0)
                    ms.extra_rng = (lo, hi)
                    ms.owned_extras = True
                    st.zone.add_le(hi, ms.cap)
                else:
                    st.zone.add_le(hi, ms.len)
                return ('sliceit', mid, lo, hi, path == SLICE_ITERMUT)
            if path == 'core::iter::adapters::chain::Chain' and len(ty['args']) == 2 and depth < 6:
                # a Chain received from outside: both halves present.  (The fused states -- a half replaced by
                # None after it ended -- behave like a present half whose cursor is exhausted, and an unknown
                # cursor may be exhausted: no separate entry state is needed for them.)
                from .state import some
                return ('adt', path, 0, tuple(some(self.mk_unknown(st, a, tag + (nm,), gs, owner_adt, depth + 1))
                                              for nm, a in zip(('a', 'b'), ty['args'])))
            if path in ENUM_VARIANTS:
                return ('unk', freeze(ty), tag)
            if path == RANGE:
                a, b = fresh('u'), fresh('u')
                st.zone.touch(a)
                st.zone.touch(b)
                return ('adt', RANGE, 0, (I(a), I(b)))
            a = self.facts.adts.get(path)
            if a is not None:
                cs = self.cursor_struct(path) if a['kind'] == 'Struct' else None
                if cs is not None and not (cs[2] and (a.get('has_drop') or (owner_adt and self.facts.adts.get(owner_adt, {}).get('has_drop')))):
                    # a borrowing front cursor { slots: &[MaybeUninit<_>] (or &mut), next: usize }: the entry state of a
                    # borrowed slice iterator (its slots are covered by the container they belong to), cursor within
                    # the slice; required again of every such value that survives a root (HANDLE at the exits)
                    mid = self.new_map(st, fresh('$cap'), 'phantom', phantom=True)
                    ms = st.maps[mid]
                    hi = Term('$back.' + mid)
                    nx = Term('$front.' + mid)      # (a quantity of the entry state: kept across loop heads)
                    st.zone.touch(hi)
                    st.zone.touch(nx)
                    st.zone.add_le(0, nx)
                    st.zone.add_le(nx, hi)
                    st.zone.add_le(hi, ms.len)
                    ftys = self.adt_field_tys(ty, 0)
                    fields = []
                    for i, ft in enumerate(ftys):
                        if i == cs[0]:
                            fields.append(('ref', cs[2], ('slice', mid, nx if cs[1] is None else 0, hi)))
                        elif i == cs[1]:
                            fields.append(I(nx))
                        else:
                            fields.append(self.mk_unknown(st, ft, tag + (i,), gs, None, depth + 1))
                    return ('adt', path, 0, tuple(fields))
                if cs is not None and (a.get('has_drop') or (owner_adt and self.facts.adts.get(owner_adt, {}).get('has_drop'))):
                    # an owning front cursor spelled out as { slots: &mut [MaybeUninit<_>], next: usize }: the same
                    # entry state as for an owned slice iterator (positions relative to the slice; the handle owns
                    # the elements from the cursor on, nobody else covers them).  The invariant assumed here is
                    # required of every such value that survives a root (HANDLE at the exits).
                    mid = self.new_map(st, fresh('$cap'), 'phantom', phantom=True)
                    ms = st.maps[mid]
                    hi = Term('$back.' + mid)
                    nx = Term('$front.' + mid)      # (a quantity of the entry state: kept across loop heads)
                    st.zone.touch(hi)
                    st.zone.touch(nx)
                    st.zone.add_le(0, nx)
                    st.zone.add_le(nx, hi)
                    st.zone.add_eq(ms.len, 0)
                    st.zone.add_le(hi, ms.cap)
                    ms.extra_rng = (nx, hi)
                    ms.owned_extras = True
                    ftys = self.adt_field_tys(ty, 0)
                    fields = []
                    for i, ft in enumerate(ftys):
                        if i == cs[0]:
                            fields.append(('ref', True, ('slice', mid, nx if cs[1] is None else 0, hi)))
                        elif i == cs[1]:
                            fields.append(I(nx))
                        else:
                            fields.append(self.mk_unknown(st, ft, tag + (i,), gs, None, depth + 1))
                    return ('adt', path, 0, tuple(fields))
                if a['kind'] == 'Struct':
                    ftys = self.adt_field_tys(ty, 0)
                    own = path if a.get('has_drop') else owner_adt
                    fields = tuple(self.mk_unknown(st, ft, tag + (a['variants'][0]['fields'][i]['name'],),
                                                   gs, own, depth + 1)
                                   for i, ft in enumerate(ftys))
                    v = ('adt', path, 0, fields)
                    self.assume_struct_inv(st, v)
                    return v
                return ('unk', freeze(ty), tag)
            return ('opq', tag)
        return ('opq', tag)

    def mark_borrowed(self, st, v, depth=0):
        """containers stored inside caller-owned memory survive the call"""
        if not isinstance(v, tuple) or not v or depth > 8:
            return
        if v[0] == 'map':
            st.maps[v[1]].borrowed = True
        elif v[0] == 'adt':
            for x in v[3]:
                self.mark_borrowed(st, x, depth + 1)
        elif v[0] == 'tuple':
            for x in v[1]:
                self.mark_borrowed(st, x, depth + 1)

    # struct invariants (assumed when a value of the type comes from outside, required whenever
    # such a value is built or survives): usize field < len of the container behind the &mut field
    def struct_inv_fields(self, path):
        a = self.facts.adts.get(path)
        if a is None or a['kind'] != 'Struct':
            return None
        fields = a['variants'][0]['fields']
        ints = [i for i, f in enumerate(fields) if f['ty'].get('k') == 'prim' and f['ty']['name'] == 'usize']
        refs = [i for i, f in enumerate(fields) if f['ty'].get('k') == 'ref' and f['ty']['mut']
                and f['ty']['to'].get('k') == 'adt' and f['ty']['to']['path'] in self.container_paths]
        # (other fields -- a copy of the probe key, PhantomData -- do not take part in the invariant)
        if len(ints) == 1 and len(refs) == 1:
            return ints[0], refs[0]
        return None

    def missed_fields(self, path):
        """struct { key: <type parameter>, table: &mut Container }  (a vacant entry): its invariant is
        Missed(key): the key was compared with every live key of the table and none matched"""
        a = self.facts.adts.get(path)
        if a is None or a['kind'] != 'Struct':
            return None
        fields = a['variants'][0]['fields']
        keys = [i for i, f in enumerate(fields) if f['ty'].get('k') == 'param']
        refs = [i for i, f in enumerate(fields) if f['ty'].get('k') == 'ref' and f['ty']['mut']
                and f['ty']['to'].get('k') == 'adt' and f['ty']['to']['path'] in self.container_paths]
        real = [f for f in fields if not (f['ty'].get('k') == 'adt' and f['ty']['path'].endswith('PhantomData'))]
        if len(keys) == 1 and len(refs) == 1 and len(real) == 2:
            return keys[0], refs[0]
        return None

    def assume_struct_inv(self, st, v):
        mf = self.missed_fields(v[1])
        if mf is not None:
            mid = self.map_of_ref(st, v[3][mf[1]])
            kt = self.rtag(st, v[3][mf[0]])
            if mid is not None:
                ms = st.maps[mid]
                ms.examined = (kt, 0, ms.len)
            return
        si = self.struct_inv_fields(v[1])
        if si is None:
            return
        idx = v[3][si[0]]
        r = v[3][si[1]]
        mid = self.map_of_ref(st, r)
        if mid is not None and idx[0] == 'int':
            st.zone.add_lt(idx[1], st.maps[mid].len)

    def map_of_ref(self, st, r):
        if r[0] != 'ref':
            return None
        v = self.load(st, r[2])
        if v[0] == 'map':
            return v[1]
        return None

    # ------------------------------------------------------------------ memory
    def peek(self, st, ptr):
        try:
            return self.load(st, ptr, quiet=True)
        except Exception:
            return ('opq', ('?',))

    def extend(self, st, ptr, elem, gs=None):
        """project a pointer by one place element"""
        k = ptr[0]
        if isinstance(elem, int):     # field
            if k in ('L', 'O'):
                v = self.peek(st, ptr)
                if v[0] == 'map':
                    info = self.container_paths[st.maps[v[1]].name] if st.maps[v[1]].name in self.container_paths \
                        else {'len': 0, 'pairs': 1}
                    if elem == info['len']:
                        return ('len', v[1])
                    return ('pairs', v[1])
                return (k, ptr[1], ptr[2], ptr[3] + (elem,)) if k == 'L' else ('O', ptr[1], ptr[2] + (elem,))
            if k == 'pair':
                return ('pair', ptr[1], ptr[2], ptr[3] + (elem,))
            if k == 'opq':
                return ('opq', ptr[1] + (elem,))
            if k == 'mu':
                # field of MaybeUninit itself: not interpreted
                return ('opq', ('mu-field',))
            return ('opq', ('field-of', k))
        if elem[0] == 'idx':
            t = elem[1]
            if k == 'pairs':
                return ('mu', ptr[1], t)
            if k == 'slice':
                return ('mu', ptr[1], self.add_terms(st, ptr[2], t))
            if k in ('L', 'O'):
                return (k, ptr[1], ptr[2], ptr[3] + (('idx', t),)) if k == 'L' else ('O', ptr[1], ptr[2] + (('idx', t),))
            if k == 'opq':
                return ('opq', ptr[1] + ('[]',))
            return ('opq', ('idx-of', k))
        raise Unproven('unsupported projection %r' % (elem,))

    def add_terms(self, st, a, b):
        if isinstance(b, int):
            return slots.plus(st, a, b)
        if isinstance(a, int):
            return slots.plus(st, b, a)
        z = st.zone
        if z.entails_eq(a, 0):
            return b
        if z.entails_eq(b, 0):
            return a
        t = fresh('s')
        z.touch(t)
        z.add_le(a, t)
        z.add_le(b, t)
        # (a difference-bound zone cannot say t = a + b: remembered on the side until the next loop head)
        st.loadcache[('sum', t)] = (a, b)
        return t

    def deref(self, st, ptr):
        v = self.load(st, ptr)
        if v[0] == 'ref':
            return v[2]
        if v[0] in ('opq', 'unk'):
            return ('opq', (v[-1] if v[0] == 'opq' else v[2]) + ('*',))
        if v[0] == 'moved':
            raise Unproven('deref of a moved value at %r' % (ptr,))
        if v[0] == 'rawslot':
            if v[3] == 'outer':
                return ('mu', v[1], v[2])       # *mut MaybeUninit<(K, V)>: the slot itself
            # the pointer MaybeUninit::as_ptr()/as_mut_ptr() gave: dereferencing it is assume_init_ref/_mut (O2)
            self.check_live(st, v[1], v[2], 'deref of as_ptr()')
            return ('pair', v[1], v[2], ())
        raise Unproven('deref of %r' % (v[0],))

    def _proj_load(self, st, v, proj, gs=None):
        for e in proj:
            v = self._materialise(st, v)
            if isinstance(e, int):
                if v[0] == 'tuple':
                    v = v[1][e] if e < len(v[1]) else ('opq', ('part', e))
                elif v[0] == 'adt':
                    v = v[3][e] if e < len(v[3]) else ('opq', ('nofield',))
                elif v[0] == 'closure':
                    v = v[2][e]
                elif v[0] == 'opq':
                    v = ('opq', v[1] + (e,))
                elif v[0] == 'moved':
                    return MOVED
                elif v[0] == 'sliceit' or v[0] == 'map':
                    raise Unproven('field projection into %s' % v[0])
                else:
                    v = ('opq', (v[0], e))
            else:  # ('idx', t)
                if v[0] == 'oarr':
                    v = ('opq', ('elem', v[1], e[1]))
                elif v[0] == 'oslice' and len(v) == 5:
                    v = ('opq', ('elem', v[1], self.add_terms(st, v[3], e[1])
                                 if not (isinstance(v[3], int) and v[3] == 0) else e[1]))
                elif v[0] in ('oarr', 'oslice'):
                    v = ('opq', v[1] + ('[]',))
                elif v[0] == 'opq':
                    v = ('opq', v[1] + ('[]',))
                else:
                    v = ('opq', ('elem',))
        return v

    def _materialise(self, st, v):
        """unk struct-like values are expanded on demand (tuples / structs only)"""
        if v[0] == 'unk':
            ty = v[1]
            if ty.get('k') == 'tuple':
                return ('tuple', tuple(('unk', freeze(e), v[2] + (i,)) for i, e in enumerate(ty['elems'])))
        return v

    def _proj_store(self, v, proj, new):
        if not proj:
            return new
        e = proj[0]
        if isinstance(e, int):
            if v[0] == 'tuple':
                fs = list(v[1])
                while len(fs) <= e:
                    fs.append(('opq', ('part', len(fs))))
                fs[e] = self._proj_store(fs[e], proj[1:], new)
                return ('tuple', tuple(fs))
            if v[0] == 'adt':
                fs = list(v[3])
                while len(fs) <= e:
                    fs.append(('opq', ('pad',)))
                fs[e] = self._proj_store(fs[e], proj[1:], new)
                return ('adt', v[1], v[2], tuple(fs))
            if v[0] == 'closure':
                fs = list(v[2])
                fs[e] = self._proj_store(fs[e], proj[1:], new)
                return ('closure', v[1], tuple(fs), v[3])
            if v[0] in ('moved', 'opq', 'unk'):
                # writing a field of an unstructured value: build a partial tuple
                # (the arity is not known: a few fields more than asked for, each keeping the provenance)
                n = max(e + 1, 4)
                base = v[1] if v[0] == 'opq' and isinstance(v[1], tuple) else ((v[2] if v[0] == 'unk' else ('part',)))
                fs = [MOVED if v[0] == 'moved' else ('opq', tuple(base) + (i,)) for i in range(n)]
                fs[e] = self._proj_store(fs[e], proj[1:], new)
                return ('tuple', tuple(fs))
            return v
        # indexed store into an opaque array: weak update
        return v

    def load(self, st, ptr, quiet=False):
        k = ptr[0]
        if k == 'L':
            fr = st.frames.get(ptr[1])
            if fr is None:
                raise Unproven('load from a dead frame %r' % (ptr,))
            v = fr.get(ptr[2], ('opq', ('uninit-local', ptr[2])))
            return self._proj_load(st, v, ptr[3])
        if k == 'O':
            return self._proj_load(st, st.objs[ptr[1]], ptr[2])
        if k == 'len':
            return I(st.maps[ptr[1]].len)
        if k == 'pair':
            mid, idx, sub = ptr[1], ptr[2], ptr[3]
            kt, vt = slots.content(st, mid, idx)
            pair = ('tuple', (('opq', kt), ('opq', vt)))
            return self._proj_load(st, pair, sub)
        if k == 'opq':
            return ('opq', ptr[1] + ('*',))
        if k == 'pairs':
            return ('pairs_val', ptr[1])
        if k == 'mu':
            return ('mu_val', ptr[1], ptr[2])
        if k == 'slice':
            return ('slice_val',) + ptr[1:]
        raise Unproven('load from %r' % (ptr,))

    # ---- pairs (slot, request) that pass through a local array (C13: position / value agreement) -------------
    def _arr_base(self, st, ptr):
        """(array tag, index term) when ptr addresses an element of a local array built in place"""
        if ptr[0] == 'L':
            base, pr = st.frames.get(ptr[1], {}).get(ptr[2]), ptr[3]
        elif ptr[0] == 'O':
            base, pr = st.objs.get(ptr[1]), ptr[2]
        else:
            return None
        if isinstance(base, tuple) and base and base[0] == 'oarr' and isinstance(base[1], tuple) and base[1][:1] == ('rep',) \
                and len(pr) == 1 and isinstance(pr[0], tuple) and pr[0][0] == 'idx':
            return base[1], pr[0][1]
        return None

    def note_array_store(self, st, ptr, v):
        ab = self._arr_base(st, ptr)
        if ab is not None and st.loadcache:
            st.loadcache = {k: x for k, x in st.loadcache.items() if k[1] != ab[0]}
        if ab is None:
            return
        plain = v[0] == 'tuple' and len(v[1]) == 2 and all(e[0] == 'int' for e in v[1])
        if not plain and not (v[0] == 'adt' and v[1] == OPTION and v[2] == 1):
            return
        T, at = ab
        x = v if plain else v[3][0]
        z = st.zone
        if plain:
            # an index list of bare (slot, request) pairs over an array that starts out with dummies: the invariant
            # is about a PREFIX -- entries [0, fill) are recorded matches -- and grows only by a store at `fill`
            a, b = x[1][0][1], x[1][1][1]
            inv = None
            for e in reversed(st.events):
                if e[0] == 'loop':
                    break
                if e[0] == 'hit' and len(e) >= 4:
                    pr = self.strip_borrow(e[3])
                    if isinstance(pr, tuple) and len(pr) >= 3 and pr[0] == 'elem' and self._teq(z, e[2], a) and self._teq(z, pr[2], b):
                        inv = ('hit-prefix', e[1], pr[1])
                        break
            g = st.ghost.get(('arrfill', T))
            fill = g[0] if g is not None else 0
            prev = st.arrinv.get(T, 'unset')
            if inv is not None and prev in ('unset', inv) and self._teq(z, at, fill):
                st.arrinv[T] = inv
                self.ghost_bump(st, ('arrfill', T))
            elif prev != 'unset' and prev is not None and z.entails_le(fill, at) is True and not self._teq(z, at, fill):
                pass        # a store strictly behind the recorded prefix: the prefix is untouched
            else:
                st.arrinv[T] = None
            return
        if x[0] == 'tuple' and len(x[1]) == 2 and all(e[0] == 'int' for e in x[1]):
            a, b = x[1][0][1], x[1][1][1]
            inv = None
            for e in reversed(st.events):
                if e[0] == 'loop':
                    break
                if e[0] == 'hit' and len(e) >= 4:
                    pr = self.strip_borrow(e[3])
                    if isinstance(pr, tuple) and len(pr) >= 3 and pr[0] == 'elem' and self._teq(z, e[2], a) and self._teq(z, pr[2], b):
                        inv = ('hit', e[1], pr[1])
                        break
            prev = st.arrinv.get(T, 'unset')
            st.arrinv[T] = inv if prev in ('unset', inv) else None
            return
        if x[0] == 'ref' and x[2][0] == 'pair' and tuple(x[2][3]) == (1,):
            # an answer is written: slot x[2][2] for the request `at`
            mid, sl = x[2][1], x[2][2]
            ok = any(m == mid and self._teq(z, a, sl) and self._teq(z, b, at) for a, b, m, kt in st.hitpairs)
            if not ok:
                # the single-request path: a direct lookup whose hit is on this very path
                for e in st.events:
                    if e[0] == 'hit' and e[1] == mid and self._teq(z, e[2], sl):
                        pr = self.strip_borrow(e[3])
                        if isinstance(pr, tuple) and len(pr) >= 3 and pr[0] == 'elem' and self._teq(z, pr[2], at):
                            ok = True
            self.oblig('AGREE', ok, 'answer array',
                       'the value of slot %s is written as the answer to request %s, but it is not established that the '
                       'key of that slot matched that request (pairs read back from an index list whose every entry '
                       'was a recorded match: %s)' % (sl, at, [(str(a), str(b)) for a, b, _, _ in st.hitpairs]),
                       'unproven', props=sorted(getattr(self, 'agree_props', ()) or ['C13']),
                       sample='answer for request %s = slot %s' % (at, sl))

    @staticmethod
    def _teq(z, a, b):
        if isinstance(a, int) and isinstance(b, int):
            return a == b
        return a is b or z.entails_eq(a, b)

    def note_loaded(self, st, tag, v):
        """a value read back from an element of a local array: when every pair stored there was a recorded match
        (slot, request), so is this one"""
        if not (isinstance(tag, tuple) and len(tag) >= 2 and tag[0] == 'elem'):
            return
        inv = st.arrinv.get(tag[1])
        if not inv:
            return
        if inv[0] == 'hit-prefix':
            # only entries below the recorded fill level are matches
            g = st.ghost.get(('arrfill', tag[1]))
            if g is None or len(tag) < 3 or not st.zone.entails_lt(tag[2], g[0]):
                return
        ints = []

        def walk(x, d=0):
            if not isinstance(x, tuple) or not x or d > 5:
                return
            if x[0] == 'int' and len(x) == 2 and not isinstance(x[1], int):
                ints.append(x[1])
            elif x[0] == 'tuple':
                for y in x[1]:
                    walk(y, d + 1)
            elif x[0] == 'adt':
                for y in x[3]:
                    walk(y, d + 1)
            elif x[0] == 'ref' and x[2][0] == 'O' and x[2][1] in st.objs:
                walk(st.objs[x[2][1]], d + 1)
        walk(v)
        if len(ints) == 2:
            st.hitpairs = (st.hitpairs + ((ints[0], ints[1], inv[1], inv[2]),))[-4:]
        elif len(ints) == 1 and len(tag) >= 4 and (tag[-1] in (0, 1) or (tag[-1] == '*' and len(tag) >= 5 and tag[-2] in (0, 1))):
            # the pair is read field by field (`stack[top].0.0`, then `.0.1`; or through a `&(a, b)` pattern: the
            # field, then a deref): the two halves belong together
            fld = tag[-1] if tag[-1] in (0, 1) else tag[-2]
            pl = st.pendload
            if pl is not None and pl[0] == tag[1] and pl[1] is tag[2] and pl[2] != fld:
                a, b = (pl[3], ints[0]) if pl[2] == 0 else (ints[0], pl[3])
                st.hitpairs = (st.hitpairs + ((a, b, inv[1], inv[2]),))[-4:]
                st.pendload = None
            else:
                st.pendload = (tag[1], tag[2], fld, ints[0])

    def store(self, st, ptr, v):
        """returns list of states"""
        if getattr(self, 'track_agree', False):
            self.note_array_store(st, ptr, v)
        k = ptr[0]
        if k == 'L':
            fr = st.frames[ptr[1]]
            if not ptr[3]:
                if st.aux:
                    place = ('loc', ptr[1], ptr[2])
                    if any(e[0] == place or e[1] == place for e in st.aux):
                        old = fr.get(ptr[2])
                        c = None
                        if isinstance(old, tuple) and len(old) == 2 and old[0] == 'int' and v[0] == 'int' and len(v) == 2:
                            if isinstance(old[1], int) and isinstance(v[1], int):
                                c = v[1] - old[1]
                            else:
                                c = slots.exact_diff(st.zone, v[1], old[1])
                        if c is None:
                            slots.aux_drop(st, lambda q: q == place)
                        else:
                            slots.aux_shift(st, place, c)
                fr[ptr[2]] = v
            else:
                fr[ptr[2]] = self._proj_store(fr.get(ptr[2], MOVED), ptr[3], v)
            return [st]
        if k == 'O':
            if self.byvalue_maps(v):
                try:
                    old = self._proj_load(st, st.objs[ptr[1]], ptr[2]) if ptr[2] else st.objs[ptr[1]]
                except Exception:
                    old = None
                if old is not None and old[0] == 'moved' and len(old) == 2:
                    v = self._transplant(st, old[1], v)
            st.objs[ptr[1]] = self._proj_store(st.objs[ptr[1]], ptr[2], v)
            return [st]
        if k == 'len':
            if v[0] != 'int':
                raise Unproven('non-integer stored to len')
            if self.contract == 'no-append':
                # documented precondition of the unsafe entry point (full map => key present):
                # a path that changes len is outside the contract
                self.stats['contract_pruned'] += 1
                raise Pruned()
            st.log('len', ptr[1], v[1])
            return self.store_len(st, ptr[1], v[1])
        if k == 'pair':
            mid, idx, sub = ptr[1], ptr[2], ptr[3]
            kt, vt = slots.content(st, mid, idx)
            cur = ('tuple', (('opq', kt), ('opq', vt)))
            if v[0] == 'moved':
                return [st]
            new = self._proj_store(cur, sub, v) if sub else v
            new = self._materialise(st, new)
            if new[0] == 'tuple' and len(new[1]) == 2:
                tags = tuple(self.tag_of(x) for x in new[1])
            else:
                tags = (('?',), ('?',))
            slots.set_content(st, mid, idx, tags)
            st.log('store', mid, idx, sub, tags)
            return [st]
        if k == 'opq':
            return [st]
        if k == 'mu':
            mid, idx = ptr[1], ptr[2]
            if v[0] == 'mu_uninit':
                lv = slots.live(st, mid, idx)
                self.oblig('LEAK', lv is False, 'slot = MaybeUninit::uninit()',
                           'a live slot is overwritten with uninit (element leaked)',
                           'refuted' if lv else 'unproven')
                if lv is not False:
                    slots.kill(st, mid, idx)
                return [st]
            if v[0] == 'mu_init':
                return self.slot_write(st, mid, idx, v[1], 'slot = MaybeUninit::new(..)')
            raise Unproven('store of %s into a slot' % v[0])
        raise Unproven('store to %r' % (ptr,))

    def _transplant(self, st, old, new, depth=0):
        """`*place = new container value` over a caller-owned container that was just dropped in place: the place
        keeps its identity (the schemas speak about the receiver), the abstract state of the new value moves in"""
        if not (isinstance(old, tuple) and isinstance(new, tuple) and old and new) or depth > 6:
            return new
        if old[0] == 'map' and new[0] == 'map' and old[1] != new[1]:
            m1, m2 = st.maps.get(old[1]), st.maps.get(new[1])
            if m1 is not None and m2 is not None and m1.dead and m1.borrowed and not m1.phantom \
                    and not m2.dead and not m2.borrowed and not m2.phantom and m2.len0 is None:
                for f in ('len', 'holes', 'extras', 'hole_rng', 'extra_rng', 'contents', 'examined', 'pending',
                          'asked', 'asked_carry', 'owned_extras'):
                    setattr(m1, f, getattr(m2, f))
                st.zone.add_eq(m1.cap, m2.cap)
                m1.dead = False
                m1.exempt = False
                m1.replaced = m2.replaced or new[1]
                m2.dead = True
                m2.holes = m2.extras = m2.contents = ()
                m2.hole_rng = m2.extra_rng = (0, 0)
                slots.aux_drop(st, lambda q: q in (('len', old[1]), ('len', new[1])))
                st.log('replaced', old[1], new[1])
                return old
            return new
        if old[0] == 'adt' and new[0] == 'adt' and old[1] == new[1] and old[2] == new[2] and len(old[3]) == len(new[3]):
            return ('adt', new[1], new[2], tuple(self._transplant(st, a, b, depth + 1) for a, b in zip(old[3], new[3])))
        if old[0] == 'tuple' and new[0] == 'tuple' and len(old[1]) == len(new[1]):
            return ('tuple', tuple(self._transplant(st, a, b, depth + 1) for a, b in zip(old[1], new[1])))
        return new

    def store_len(self, st, mid, new):
        ms = st.maps[mid]
        z = st.zone
        old = ms.len
        grow1 = z.entails_eq(new, old, 1) and not ms.exempt
        scanned = self.miss_complete(st, mid) if grow1 else None
        if grow1 and scanned is None:
            ex = ms.examined
            st.log('scan-incomplete', mid, ex, self.facts_about(st, [old] + ([ex[1], ex[2]] if ex else [])))
        lv = slots.live(st, mid, old) if grow1 else None
        ktag = slots.content(st, mid, old)[0] if (grow1 and lv is True) else None
        if st.aux and any(e[0] == ('len', mid) or e[1] == ('len', mid) for e in st.aux):
            c = slots.exact_diff(z, new, old) if not (isinstance(new, int) and isinstance(old, int)) else new - old
            if c is None:
                slots.aux_drop(st, lambda q: q == ('len', mid))
            else:
                slots.aux_shift(st, ('len', mid), c)
        if getattr(self, 'track_pop', False) and z.entails_eq(old, new, 1):
            self.ghost_bump(st, ('pop', mid))
        out = slots.set_len(st, mid, new)
        for s in out:
            m2 = s.maps[mid]
            if grow1:
                if lv is True:
                    self.note_append(s, mid, old, ktag, scanned)
                else:
                    m2.pending = (old, scanned)
                    m2.examined = None
            elif not s.zone.entails_eq(m2.len, old):
                m2.examined = None
                if not ms.exempt and not s.zone.entails_le(m2.len, old):
                    # len grows by something else than one: not an append the rules understand
                    s.log('len-jump', mid, old, new)
        return out

    def trim(self, tag, depth=8):
        """bound the nesting of provenance tags (they only feed the path log)"""
        if not isinstance(tag, tuple):
            return tag
        if depth == 0:
            return ('...',)
        return tuple(self.trim(x, depth - 1) for x in tag)

    def tag_of(self, v):
        if v[0] == 'opq':
            return self.trim(v[1])
        if v[0] == 'unk':
            return v[2]
        if v[0] == 'tuple':
            return ('tuple',) + tuple(self.tag_of(x) for x in v[1])
        if v[0] == 'ref':
            return ('ref', v[2])
        if v[0] in ('oarr', 'oslice') and isinstance(v[1], tuple):
            return self.trim(v[1])      # an array of user data keeps the provenance it came with
        return (v[0],)

    def rtag(self, st, v, depth=0):
        """resolved provenance of a value: references are followed to what they point at
        (a slot position, a local holding a tagged value, user memory)"""
        if not isinstance(v, tuple) or not v or depth > 6:
            return ('?',)
        h = v[0]
        if h == 'ref':
            p = v[2]
            if p[0] == 'pair':
                return ('slot', p[1], p[2], p[3])
            if p[0] in ('L', 'O'):
                try:
                    return self.rtag(st, self.load(st, p, quiet=True), depth + 1)
                except Exception:
                    return ('ref', p)
            if p[0] == 'opq':
                return self.trim(p[1])
            return ('ref', p)
        if h == 'opq':
            return self.trim(v[1])
        if h == 'unk':
            return v[2]
        if h == 'tuple':
            return ('tuple',) + tuple(self.rtag(st, x, depth + 1) for x in v[1])
        if h == 'int':
            return ('int', v[1])
        if h == 'adt' and v[1] == OPTION:
            return ('none',) if v[2] == 0 else ('some', self.rtag(st, v[3][0], depth + 1))
        if h in ('oarr', 'oslice') and isinstance(v[1], tuple):
            return self.trim(v[1])
        if h == 'adt' and v[1] in ('core::iter::adapters::copied::Copied', 'core::iter::adapters::cloned::Cloned') and v[3]:
            nm = 'copied' if v[1].endswith('Copied') else 'cloned'
            return ('c', 'core::iter::traits::iterator::Iterator::' + nm, (self.rtag(st, v[3][0], depth + 1),))
        return (h,)

    # ------------------------------------------------------------------ key scans (DESIGN §2.2)
    @staticmethod
    def tag_mentions(tag, t):
        if tag == t:
            return True
        if isinstance(tag, tuple):
            if isinstance(t, tuple) and len(tag) >= len(t) and tag[:len(t)] == t:
                return True
            return any(Interp.tag_mentions(x, t) for x in tag if isinstance(x, tuple))
        return False

    def invalidate_examined(self, st, tag):
        """a new value with provenance `tag` comes into existence: scans made for the previous
        bearer of that tag say nothing about it"""
        for ms in st.maps.values():
            if ms.examined is not None and self.tag_mentions(ms.examined[0], tag):
                st.log('scan-invalidated', tag)
                ms.examined = None

    @staticmethod
    def slot_key_side(t):
        """tag of a comparison operand -> (mid, idx) when it is (a borrow of) the key of a slot"""
        while isinstance(t, tuple) and t and t[0] == 'borrow':
            t = t[1]
        if isinstance(t, tuple) and len(t) == 4 and t[0] == 'slot' and t[3] == (0,):
            return t[1], t[2]
        return None

    @staticmethod
    def strip_borrow(t):
        while isinstance(t, tuple) and t and t[0] == 'borrow':
            t = t[1]
        return t

    def note_answer(self, st, tag, truth):
        """user code answered `truth` to the question `tag` (normalised: negations removed)"""
        while isinstance(tag, tuple) and tag and tag[0] == 'not':
            tag = tag[1]
            truth = not truth
        if not (isinstance(tag, tuple) and tag and tag[0] == 'eq' and len(tag) == 3):
            return
        a, b = tag[1], tag[2]
        ea, eb = self.strip_borrow(a), self.strip_borrow(b)
        if isinstance(ea, tuple) and isinstance(eb, tuple) and len(ea) == 3 and len(eb) == 3 \
                and ea[0] == 'elem' and eb[0] == 'elem' and ea[1] == eb[1]:
            self.note_pair(st, ea[1], ea[2], eb[2], truth)
            return
        sa, sb = self.slot_key_side(a), self.slot_key_side(b)
        if sa is not None and sb is not None and sa[0] != sb[0]:
            # keys of two containers are compared: the container being scanned is the one whose
            # slots were sliced (or, in an index loop, addressed) most recently; the other side is the probe
            scanned = None
            for e in reversed(st.events):
                if e[0] in ('slice', 'at') and e[1] in (sa[0], sb[0]):
                    scanned = e[1]
                    break
            if scanned == sa[0]:
                sb = None
            elif scanned == sb[0]:
                sa = None
        if (sa is None) == (sb is None):
            return
        (mid, idx), other = (sa, self.strip_borrow(b)) if sa is not None else (sb, self.strip_borrow(a))
        ms = st.maps.get(mid)
        if ms is None:
            return
        z = st.zone
        if truth:
            st.log('hit', mid, idx, other)
            return
        ex = ms.examined
        if ex is not None and tag_eq(z, ex[0], other):
            lo, hi = ex[1], ex[2]
            if z.entails_eq(idx, hi):
                ms.examined = (other, lo, slots.plus(st, idx, 1)) + tuple(ex[3:])
                return
            if z.entails_le(lo, idx) and z.entails_lt(idx, hi):
                return
        if z.entails_eq(idx, 0):
            ms.examined = (other, 0, slots.plus(st, idx, 1), st.loops)     # (+ the loops it was begun in)
        else:
            st.log('scan-lost', mid, idx, ex, other, ('keyeq', ex is not None and tag_eq(z, ex[0], other)), ('idx-hi', ex and z.d.get((idx, ex[2])), ex and z.d.get((ex[2], idx))))
            ms.examined = None

    def note_pair(self, st, tg, a, b, truth):
        """elements a and b of the opaque array `tg` were compared; `different` extends the record
        (x, y, J): every pair with first index < x was compared, and (x, c) for x < c < y"""
        if truth:
            st.log('pair-equal', tg, a, b)
            return
        z = st.zone
        rec = st.pairs.get(tg)
        if rec is None:
            return
        self.norm_pairs(st)
        x, y, J = st.pairs[tg]
        if z.entails_lt(b, a):
            a, b = b, a
        elif not z.entails_lt(a, b):
            st.pairs[tg] = None
            st.log('pairs-lost', tg, 'unordered comparison')
            return
        if z.entails_eq(a, x) and z.entails_eq(b, y):
            st.pairs[tg] = (x, slots.plus(st, b, 1), J)
            return
        if z.entails_lt(a, x) or (z.entails_eq(a, x) and z.entails_lt(b, y)):
            return
        st.pairs[tg] = None
        st.log('pairs-lost', tg, 'comparison (%s,%s) does not extend the compared prefix (%s,%s)' % (a, b, x, y))

    def norm_pairs(self, st):
        """a completed row x (y == J) is the same record as the empty beginning of row x + 1"""
        z = st.zone
        for tg, rec in list(st.pairs.items()):
            if rec is None:
                continue
            x, y, J = rec
            if z.entails_eq(y, J) and z.entails_lt(x, J):
                nx = slots.plus(st, x, 1)
                st.pairs[tg] = (nx, slots.plus(st, nx, 1), J)

    def pairs_complete(self, st, tg):
        """were all pairs i < j < J of the opaque array compared (and found different)?"""
        rec = st.pairs.get(tg, 'absent')
        z = st.zone
        if rec == 'absent':
            return None
        if rec is None:
            return False
        self.norm_pairs(st)
        x, y, J = st.pairs[tg]
        return z.entails_le(J, x, 1)

    def aux_close(self, st):
        """d = value(hi) - value(lo) (tracked on the side): once the subtrahend is known to be 0, d IS value(hi)"""
        if not st.aux:
            return
        z = st.zone

        def val(pl):
            if pl[0] == 'loc':
                v = st.frames.get(pl[1], {}).get(pl[2])
                return v[1] if isinstance(v, tuple) and len(v) == 2 and v[0] == 'int' else None
            if pl[0] == 'len' and pl[1] in st.maps:
                return st.maps[pl[1]].len
            if pl[0] in ('rs', 're'):
                try:
                    r = self.load(st, pl[1], quiet=True)
                except Exception:
                    return None
                if isinstance(r, tuple) and r and r[0] == 'adt' and r[1] == RANGE and len(r[3]) == 2:
                    x = r[3][0 if pl[0] == 'rs' else 1]
                    return x[1] if x[0] == 'int' else None
            return None
        for h, l, d in st.aux:
            vh, vl = val(h), val(l)
            if vh is None or vl is None:
                continue
            if isinstance(d, int):
                if d == 0:
                    z.add_eq(vh, vl)
                continue
            if z.entails_eq(vl, 0):
                z.add_eq(d, vh)
            if z.entails_eq(d, 0):
                z.add_eq(vh, vl)
            elif z.entails_eq(vh, vl):
                z.add_eq(d, 0)
                # (differences that are known equal to this one vanish with it)
        for h, l, d in st.aux:
            if not isinstance(d, int) and z.sat and z.entails_eq(d, 0):
                vh, vl = val(h), val(l)
                if vh is not None and vl is not None:
                    z.add_eq(vh, vl)

    def miss_complete(self, st, mid, upto=None):
        """-> key tag for which the whole live prefix [0, upto) was compared with answer "no"
        (None if there is no such scan; ('<empty>',) when the prefix is empty)"""
        ms = st.maps[mid]
        z = st.zone
        self.aux_close(st)
        end = ms.len if upto is None else upto
        if z.entails_eq(end, 0):
            return ('<empty>',)
        ex = ms.examined
        if ex is not None and z.entails_eq(ex[1], 0) and z.entails_eq(ex[2], end):
            return ex[0]
        return None

    # ------------------------------------------------------------------ slot primitives
    def check_index(self, st, mid, idx, prim):
        """O1: idx < N"""
        ms = st.maps[mid]
        z = st.zone
        ok = z.entails_lt(idx, ms.cap)
        self.oblig('O1', ok, prim,
                   'unchecked index %s is not proved < N (%s); known: %s' % (idx, ms.cap, self.facts_about(st, [idx, ms.len, ms.cap])),
                   'unproven', sample='%s < %s' % (idx, ms.cap))
        if not ok:
            # continue as if the obligation held, but remember that this path rests on an assumption
            z.add_lt(idx, ms.cap)
            st.assumed = st.assumed + (('O1', prim),)
        return ok

    def struct_is_cap(self, st, mid, hi):
        cap = st.maps[mid].cap
        return hi is cap or hi == cap or st.zone.entails_eq(hi, cap)

    def facts_about(self, st, terms):
        ts = set(t for t in terms if isinstance(t, Term))
        return '; '.join(st.zone.facts(ts)[:12])

    def check_live(self, st, mid, idx, prim):
        """O2: slot is live"""
        if st.aux and not isinstance(idx, int):
            # len - (a local whose value is idx) is carried as an auxiliary difference and is positive: idx < len
            z0 = st.zone
            for h, l, d in st.aux:
                if h == ('len', mid) and l[0] == 'loc' and not isinstance(d, int) and z0.entails_lt(0, d):
                    v = st.frames.get(l[1], {}).get(l[2])
                    if isinstance(v, tuple) and len(v) == 2 and v[0] == 'int' and (v[1] is idx or z0.entails_eq(v[1], idx)):
                        z0.add_lt(idx, st.maps[mid].len)
                        break
        lv = slots.live(st, mid, idx)
        ms = st.maps[mid]
        self.oblig('O2', lv is True, prim,
                   'slot %s of %s is %s (%s; %s)' % (idx, mid, 'dead' if lv is False else 'not proved live',
                                                     ms.describe(), self.facts_about(st, [idx, ms.len])),
                   'refuted' if lv is False else 'unproven',
                   sample='slot %s live in {%s}' % (idx, ms.describe()))
        if lv is None:
            # continue under the assumption that the obligation held
            st.zone.add_lt(idx, ms.len)
        return lv is True

    def slot_read(self, st, mid, idx, prim):
        self.check_live(st, mid, idx, prim)
        kt, vt = slots.content(st, mid, idx)
        try:
            if slots.live(st, mid, idx) is not False:
                slots.kill(st, mid, idx)
        except Unproven as e:
            self.violate('SHAPE', 'unproven', prim, str(e))
        st.log('read', mid, idx, (kt, vt))
        st.maps[mid].examined = None
        return ('tuple', (('opq', kt), ('opq', vt)))

    def slot_write(self, st, mid, idx, val, prim):
        lv = slots.live(st, mid, idx)
        self.oblig('LEAK', lv is False, prim,
                   'slot %s of %s is overwritten while %s (element leaked without drop); %s'
                   % (idx, mid, 'live' if lv else 'possibly live', st.maps[mid].describe()),
                   'refuted' if lv else 'unproven', sample='slot %s dead before write' % (idx,))
        try:
            if lv is not True:
                slots.fill(st, mid, idx)
        except Unproven as e:
            self.violate('SHAPE', 'unproven', prim, str(e))
        val = self._materialise(st, val)
        if val[0] == 'tuple' and len(val[1]) == 2:
            tags = tuple(self.tag_of(x) for x in val[1])
        else:
            tags = (self.tag_of(val) + (0,), self.tag_of(val) + (1,))
        slots.set_content(st, mid, idx, tags)
        st.log('write', mid, idx, tags)
        ms = st.maps[mid]
        pend = ms.pending
        if pend is not None and st.zone.entails_eq(pend[0], idx):
            # the slot that an earlier `len += 1` already covers is filled now: this is the append
            self.note_append(st, mid, idx, tags[0], pend[1])
            ms.pending = None
        elif not st.zone.entails_le(ms.len, idx):
            # a write below len (refill of a hole): scans made before it are stale
            ms.examined = None
        return [st]

    def note_append(self, st, mid, idx, ktag, scanned):
        """slot idx joins the live prefix holding key `ktag`; `scanned` = key tag of a completed
        full-prefix miss (or None)"""
        ok = scanned is not None and (scanned == ('<empty>',) or tag_eq(st.zone, scanned, ktag))
        if not ok:
            # element i of another container cloned into slot i of this one: the keys are as distinct
            # as those of the source (a positional copy needs no scan)
            srcs = []

            def walk(t):
                if isinstance(t, tuple):
                    if len(t) == 4 and t[0] in ('pair', 'slot') and isinstance(t[1], str):
                        srcs.append(t)
                    else:
                        for x in t:
                            walk(x)
            walk(ktag)
            if len(srcs) == 1 and srcs[0][1] != mid and 'Clone::clone' in str(ktag) \
                    and st.zone.entails_eq(srcs[0][2], idx) and slots.live(st, srcs[0][1], srcs[0][2]) is True:
                ok = True
                scanned = ('<positional copy of %s>' % srcs[0][1],)
        st.log('append', mid, idx, ktag, ok, scanned)
        self.oblig('APPEND-AFTER-MISS', ok, 'append',
                   'slot %s joins the live prefix of %s holding key %r, but no completed scan of the whole '
                   'prefix for that same key precedes it on this path (scan seen: %r); path tail: %s'
                   % (idx, mid, ktag, scanned, ' | '.join(str(e) for e in st.events[-12:])),
                   'unproven', sample='key %r compared with every live key before the append' % (ktag,))
        st.maps[mid].examined = None

    # ------------------------------------------------------------------ operands / rvalues
    def eval_place(self, st, fid, place):
        ptr = ('L', fid, place['local'], ())
        for e in place['proj']:
            if e == 'deref':
                ptr = self.deref(st, ptr)
            elif 'field' in e:
                ptr = self.extend(st, ptr, e['field'])
            elif 'index' in e:
                iv = st.frames[fid].get(e['index'])
                t = iv[1] if iv and iv[0] == 'int' else fresh('u')
                ptr = self.extend(st, ptr, ('idx', t))
            elif 'downcast' in e:
                continue
            elif 'constindex' in e:
                ci = e['constindex']
                if ci['from_end']:
                    raise Unproven('from_end constant index')
                ptr = self.extend(st, ptr, ('idx', ci['offset']))
            else:
                raise Unproven('projection %r' % (e,))
        return ptr

    def eval_operand(self, st, fid, op):
        if 'copy' in op:
            return self.load(st, self.eval_place(st, fid, op['copy']))
        if 'move' in op:
            ptr = self.eval_place(st, fid, op['move'])
            v = self.load(st, ptr)
            if ptr[0] in ('L', 'O') and v[0] not in ('int', 'bool', 'boolc', 'boolu', 'ref', 'rawslot', 'rawbase'):
                self.store(st, ptr, MOVED)
            return v
        if 'const' in op:
            return self.eval_const(st, fid, op['const'])
        raise Unproven('operand %r' % (op,))

    def eval_const(self, st, fid, c):
        ty = c['ty']
        k = ty.get('k')
        val = c['val']
        gs = st.fmeta[fid][1]
        if 'param' in c:
            return I(self.const_term(st, c['param'], gs))
        if c.get('uneval_local') and c.get('uneval_def') in self.facts.bodies \
                and self.facts.bodies[c['uneval_def']].kind in ('InlineConst', 'AnonConst'):
            # an inline const / const item of the crate: evaluate its body
            res = self.exec_fn(st.fork(), self.facts.bodies[c['uneval_def']], [], dict(gs or {}))
            vals = [v for kind, s, v in res if kind == 'ret']
            if len(vals) == 1 and not terms_of(vals[0]):
                return vals[0]
            raise Unproven('cannot evaluate local constant %s' % c['uneval_def'])
        if c.get('uneval_def') and k == 'prim' and 'bits' not in c:
            # a constant the compiler has not evaluated (an associated const of a generic impl: `Self::PLAIN =
            # !needs_drop::<(K, V)>()`): its value depends on the instantiation -- a fixed but unknown value, so
            # BOTH arms of a branch on it are code that runs for some K, V
            if ty['name'] == 'bool':
                return ('boolu', ('const', val))
            if ty['name'] in self.INT_BITS:
                cache = self.__dict__.setdefault('_uneval_terms', {})
                if val not in cache:
                    cache[val] = fresh('k')
                st.zone.touch(cache[val])
                return I(cache[val])
        if k == 'prim':
            if ty['name'] == 'bool':
                return TRUE if val.endswith('true') else FALSE
            if 'bits' in c and ty['name'] != 'char':
                return I(int(c['bits']))
            return ('opq', ('const', val))
        if k == 'fndef':
            return ('fn', ty['def'], freeze(ty))
        if k == 'tuple' and not ty['elems']:
            return UNIT
        if k == 'adt':
            if ty_is_mu(ty):
                return ('mu_uninit',) if 'uninit' in val else ('opq', ('const', val))
            if ty['path'] == OPTION and val.rstrip().endswith('None'):
                return NONE
            if ty['path'] == 'core::marker::PhantomData':
                return ('adt', ty['path'], 0, ())
            return ('unk', freeze(ty), ('const', val))
        if k == 'closure':
            return ('closure', ty['body'], (), tuple(sorted((gs or {}).items(), key=lambda kv: kv[0])))
        if k == 'ref':
            to = ty.get('to') or {}
            if (to.get('k') == 'array' and str(to.get('len')) == '0' and ty_is_mu(to.get('elem') or {})) \
                    or (to.get('k') == 'slice' and ty_is_mu(to.get('elem') or {}) and val.replace(' ', '').endswith('[]')):
                # `&[]` of slots: the empty slice (of a phantom container that holds nothing)
                return ('ref', bool(ty.get('mut')), ('slice', self.empty_map(st), 0, 0))
            return ('ref', False, ('opq', ('const', val)))
        return ('opq', ('const', val))

    def empty_map(self, st):
        for mid, ms in st.maps.items():
            if ms.name == '$empty':
                return mid
        mid = self.new_map(st, fresh('$cap'), '$empty', phantom=True)
        st.zone.add_eq(st.maps[mid].len, 0)
        return mid

    def int_of(self, st, v):
        if v[0] == 'int':
            return v[1]
        return None

    def compare(self, st, op, a, b):
        """-> value of a comparison between two abstract values"""
        if a[0] == 'int' and b[0] == 'int':
            x, y = a[1], b[1]
            if isinstance(x, int) and isinstance(y, int):
                r = {'Eq': x == y, 'Ne': x != y, 'Lt': x < y, 'Le': x <= y, 'Gt': x > y, 'Ge': x >= y}[op]
                return TRUE if r else FALSE
            return ('boolc', (op, x, y))
        if a[0] == 'aff' or b[0] == 'aff':
            return ('boolu', ('cmp', op, a, b))
        if (a[0] == 'slen' or b[0] == 'slen') and a[0] in ('int', 'slen') and b[0] in ('int', 'slen'):
            return ('boolc', (op, a if a[0] == 'slen' else a[1], b if b[0] == 'slen' else b[1]))
        if a[0] == 'bool' and b[0] == 'bool' and op in ('Eq', 'Ne'):
            r = (a[1] == b[1]) == (op == 'Eq')
            return TRUE if r else FALSE
        return ('boolu', ('cmp', op, self.tag_of(a), self.tag_of(b)))

    NEG = {'Eq': 'Ne', 'Ne': 'Eq', 'Lt': 'Ge', 'Ge': 'Lt', 'Le': 'Gt', 'Gt': 'Le'}

    def assume_cond(self, st, cond, truth):
        r = self._assume_cond(st, cond, truth)
        if r and st.aux:
            self.aux_close(st)
            r = st.zone.sat
        return r

    def _assume_cond(self, st, cond, truth):
        """add comparison (op,a,b) (or its negation) to the zone; returns False if infeasible"""
        op = cond[0]
        z = st.zone
        if op == 'Not':
            return self._assume_cond(st, cond[1], not truth)
        if op in ('OvfAdd', 'OvfSub'):
            _, t, x, y = cond
            if truth:
                if op == 'OvfSub':
                    z.add_lt(x, y)
                elif isinstance(y, int) and z.has_strict_upper_term(x, y):
                    z.sat = False
                return z.sat
            if op == 'OvfSub':
                z.add_le(y, x)
                if isinstance(y, int):
                    z.add_eq(x, t, y)
                else:
                    z.add_le(t, x)
            else:
                if isinstance(y, int):
                    z.add_eq(t, x, y)
                else:
                    z.add_le(x, t)
                    z.add_le(y, t)
            return z.sat
        _, a, b = cond
        if not truth:
            op = self.NEG[op]
        # slice lengths: hi - lo
        if isinstance(a, tuple) or isinstance(b, tuple):
            a2 = a if isinstance(a, tuple) else I(a)
            b2 = b if isinstance(b, tuple) else I(b)
            ok = self._assume_slen(st, op, a2, b2)
            if ok:
                self._note_exhausted(st, a2, b2)
            return ok
        if op == 'Lt':
            z.add_lt(a, b)
        elif op == 'Le':
            z.add_le(a, b)
        elif op == 'Gt':
            z.add_lt(b, a)
        elif op == 'Ge':
            z.add_le(b, a)
        elif op == 'Eq':
            z.add_eq(a, b)
        elif op == 'Ne':
            if z.entails_eq(a, b):
                z.sat = False
            elif z.entails_le(a, b):
                z.add_lt(a, b)
            elif z.entails_le(b, a):
                z.add_lt(b, a)
        return z.sat

    def _note_exhausted(self, st, *vals):
        """a branch decided that a slice length is 0: a slice cursor that stands over exactly that range is at its
        end -- the same fact `next() == None` establishes (an early `if self.iter.len() == 0 { return None }`)"""
        z = st.zone
        for x in vals:
            if x[0] != 'slen' or len(x) != 3 or not z.entails_le(x[2], x[1]):
                continue
            mids = set()

            def walk(v, depth=0):
                if not isinstance(v, tuple) or depth > 24:
                    return
                if len(v) == 5 and v[0] == 'sliceit':
                    try:
                        if z.entails_eq(v[2], x[1]) and z.entails_eq(v[3], x[2]):
                            mids.add(v[1])
                    except Exception:
                        pass
                    return
                for w in v:
                    if isinstance(w, tuple):
                        walk(w, depth + 1)
            for fr in st.frames.values():
                for v in fr.values():
                    walk(v)
            for v in st.objs.values():
                walk(v)
            if len(mids) == 1:
                mid = next(iter(mids))
                if not (st.events and st.events[-1] == ('cursor-end', mid)):
                    st.log('cursor-end', mid)

    def _assume_slen(self, st, op, a, b):
        """a, b: ('slen', lo, hi) or ('int', c)"""
        z = st.zone
        flip = {'Lt': 'Gt', 'Gt': 'Lt', 'Le': 'Ge', 'Ge': 'Le', 'Eq': 'Eq', 'Ne': 'Ne'}
        if b[0] == 'slen' and a[0] == 'int':
            return self._assume_slen(st, flip[op], b, a)
        if a[0] == 'slen' and b[0] == 'int':
            lo, hi, c = a[1], a[2], b[1]
            if isinstance(c, int):
                # hi - lo op c
                if op == 'Gt':
                    z.add_le(lo, hi, -(c + 1))
                elif op == 'Ge':
                    z.add_le(lo, hi, -c)
                elif op == 'Lt':
                    z.add_le(hi, lo, c - 1)
                elif op == 'Le':
                    z.add_le(hi, lo, c)
                elif op == 'Eq':
                    z.add_eq(hi, lo, c)
                elif op == 'Ne' and c == 0:
                    z.add_lt(lo, hi)
                return z.sat
            if z.entails_eq(lo, 0):
                return self.assume_cond(st, (op, hi, c), True)
            if op in ('Gt', 'Ge'):
                # hi - lo > c  =>  hi > c
                z.add_le(c, hi, -1 if op == 'Gt' else 0)
            return z.sat
        if a[0] == 'slen' and b[0] == 'slen':
            if z.entails_eq(a[1], b[1]) and z.entails_eq(a[2], b[2]):
                # the length of the very same range on both sides
                if op in ('Ne', 'Lt', 'Gt'):
                    z.sat = False
                return z.sat
            if z.entails_eq(a[1], 0) and z.entails_eq(b[1], 0):
                return self.assume_cond(st, (op, a[2], b[2]), True)
            if z.entails_eq(a[1], b[1]):
                return self.assume_cond(st, (op, a[2], b[2]), True)     # same start: compare the ends
            if z.entails_eq(a[2], b[2]):
                return self.assume_cond(st, (op, b[1], a[1]), True)     # same end: the later start is the shorter one
        return z.sat

    def decide(self, st, cond):
        """True/False if the zone decides the comparison, else None"""
        a = st.fork()
        ok_t = self.assume_cond(a, cond, True)
        b = st.fork()
        ok_f = self.assume_cond(b, cond, False)
        if ok_t and not ok_f:
            return True
        if ok_f and not ok_t:
            return False
        return None

    def eval_rvalue(self, st, fid, rv):
        """returns list of (state, value)"""
        k = next(iter(rv))
        v = rv[k]
        if k == 'use':
            return [(st, self.eval_operand(st, fid, v))]
        if k == 'ref':
            ptr = self.eval_place(st, fid, v['place'])
            return [(st, ('ref', v['mut'], ptr))]
        if k == 'bin':
            a = self.eval_operand(st, fid, v['l'])
            b = self.eval_operand(st, fid, v['r'])
            op = v['op']
            if op.startswith('Sub') and a[0] == 'int' and b[0] == 'int' and not isinstance(a[1], int) and not isinstance(b[1], int):
                # the difference of two LOCALS (`at = last - i` with `i` counting down): a difference-bound zone cannot
                # say at + i == last, so the difference is tracked per pair of places (DESIGN 14.14): every store of
                # old +- c to one of them shifts it, and the next `last - i` is that very term
                pl = []
                for o, val in ((v['l'], a), (v['r'], b)):
                    q = o.get('copy') or o.get('move')
                    if q is None or q['proj']:
                        pl.append(None)
                        continue
                    loc = q['local']
                    al = st.loadcache.get(('alias', fid, loc))
                    if al is not None and al[1] == val and st.frames.get(fid, {}).get(al[0]) == val:
                        loc = al[0]         # the temporary is a copy of this local, which still holds that value
                    pl.append(('loc', fid, loc))
                z = st.zone
                if pl[0] is not None and pl[1] is not None and z.entails_le(b[1], a[1]):
                    d = slots.aux_find(st, pl[0], pl[1])
                    if d is None:
                        res = self.binop(st, op, a, b)
                        r0 = res[1][0] if res[0] == 'tuple' else res
                        if r0[0] == 'int':
                            slots.aux_set(st, pl[0], pl[1], r0[1])
                        return [(st, res)]
                    if not isinstance(d, int):
                        z.touch(d)
                        z.add_le(d, a[1])
                        if z.entails_le(1, b[1]):
                            z.add_le(d, a[1], -1)
                    return [(st, ('tuple', (I(d), FALSE)) if op.endswith('WithOverflow') else I(d))]
            if op.startswith(('Shl', 'Shr')):
                self.shift_check(st, fid, v, a, b)
            return [(st, self.binop(st, op, a, b))]
        if k == 'un':
            x = self.eval_operand(st, fid, v['x'])
            op = v['op']
            if op == 'Not':
                if x[0] == 'bool':
                    return [(st, FALSE if x[1] else TRUE)]
                if x[0] == 'boolc':
                    return [(st, ('boolc', ('Not', x[1])))]
                if x[0] == 'boolu':
                    return [(st, ('boolu', ('not', x[1])))]
                return [(st, ('opq', ('not',)))]
            if op == 'PtrMetadata':
                if x[0] == 'ref' and x[2][0] == 'slice':
                    return [(st, ('slen', x[2][2], x[2][3]))]
                if x[0] == 'ref':
                    tv = self.peek(st, x[2])
                    if tv[0] in ('oslice', 'oarr'):
                        return [(st, I(tv[2]))]
                t = fresh('u')
                st.zone.touch(t)
                return [(st, I(t))]
            return [(st, ('opq', ('unop', op)))]
        if k == 'agg':
            ops = [self.eval_operand(st, fid, o) for o in v['ops']]
            kind = v['kind']
            if kind == 'tuple':
                return [(st, ('tuple', tuple(ops)))]
            if kind == 'adt':
                path = v['path']
                if path in self.container_paths:
                    info = self.container_paths[path]
                    ln = ops[info['len']]
                    gs = st.fmeta[fid][1]
                    a = self.facts.adts[path]
                    gens = [g for g in a['generics'] if g['kind'] != 'lifetime']
                    cap = None
                    for g, arg in zip(gens, v['args']):
                        if g['name'] == info['cap'] and arg.get('k') == 'const':
                            cap = self.const_term(st, arg['v'], gs)
                    if cap is None:
                        cap = fresh('$cap')
                    pv = ops[info['pairs']]
                    if pv[0] == 'arr_of' and pv[1] in st.maps and not st.maps[pv[1]].dead:
                        # a slot array that was moved out of another container as a whole (models.m_replace): the
                        # carrier that stands for it becomes this container
                        mid = pv[1]
                        st.maps[mid].name = path
                        st.zone.add_eq(st.maps[mid].cap, cap)
                        st.log('adopted', mid)
                    elif pv[0] != 'uninit_arr':
                        raise Unproven('container built from a non-fresh slot array')
                    else:
                        mid = self.new_map(st, cap, path, inv=False, length=0)
                        st.log('new', mid)
                    if ln[0] != 'int':
                        raise Unproven('container built with a non-integer len')
                    if not (isinstance(ln[1], int) and ln[1] == 0):
                        slots.aux_drop(st, lambda q: q == ('len', mid))
                        sts = slots.set_len(st, mid, ln[1])
                        return [(s, ('map', mid)) for s in sts]
                    return [(st, ('map', mid))]
                val = ('adt', path, v['variant'], tuple(ops))
                mf = self.missed_fields(path)
                if mf is not None:
                    mid = self.map_of_ref(st, ops[mf[1]])
                    kt = self.rtag(st, ops[mf[0]])
                    m = self.miss_complete(st, mid) if mid is not None else None
                    ok = m is not None and (m == ('<empty>',) or tag_eq(st.zone, m, kt))
                    self.oblig('STRUCTINV', ok, 'new ' + path.split('::')[-1],
                               'a vacant entry is built for key %r although no completed scan of the whole live '
                               'prefix for that key precedes it (scan seen: %r)' % (kt, m), 'unproven',
                               sample='Missed(%r) established' % (kt,))
                return [(st, val)]
            if kind == 'closure':
                gs = st.fmeta[fid][1]
                return [(st, ('closure', v['body'], tuple(ops), tuple(sorted((gs or {}).items(), key=lambda kv: kv[0]))))]
            if kind == 'array':
                t = len(ops)
                return [(st, ('oarr', ('array',), t))]
            raise Unproven('aggregate %s' % kind)
        if k == 'discr':
            ptr = self.eval_place(st, fid, v)
            val = self.load(st, ptr)
            if val[0] == 'adt':
                return [(st, I(val[2]))]
            if val[0] == 'unk' and val[1].get('k') == 'adt':
                return self.fork_variants(st, ptr, val, fid)
            t = fresh('d')
            st.zone.touch(t)
            return [(st, I(t))]
        if k == 'cast':
            x = self.eval_operand(st, fid, v['op'])
            kind = v['kind']
            if 'Unsize' in kind:
                if x[0] == 'ref' and x[2][0] == 'pairs':
                    mid = x[2][1]
                    return [(st, ('ref', x[1], ('slice', mid, 0, st.maps[mid].cap)))]
                if x[0] == 'ref':
                    tv = self.peek(st, x[2])
                    if tv[0] == 'oarr':
                        oid = st.new_id('o')
                        st.objs[oid] = ('oslice', tv[1], tv[2], 0, tv[2])     # element positions stay tracked
                        return [(st, ('ref', x[1], ('O', oid, ())))]
                return [(st, x)]
            if kind.startswith('IntToInt'):
                return [(st, x)]
            if x[0] in ('rawslot', 'rawbase') and ('MutToConstPointer' in kind or (
                    kind == 'PtrToPtr' and v['ty'].get('k') == 'rawptr' and ty_is_mu(v['ty'].get('to') or {}))):
                # *mut MaybeUninit<(K, V)>  ->  *const MaybeUninit<(K, V)>: the same pointer
                return [(st, x)]
            if 'ReifyFnPointer' in kind or 'ClosureFnPointer' in kind:
                return [(st, x)]
            if x[0] in ('ref',) and x[2][0] in ('mu', 'pairs', 'slice', 'pair'):
                self.violate('CENSUS', 'unmodelled', 'cast ' + kind, 'cast of a slot reference')
            return [(st, ('opq', ('cast', kind)))]
        if k == 'repeat':
            x = self.eval_operand(st, fid, v['op'])
            gs = st.fmeta[fid][1]
            if x[0] == 'mu_uninit':
                return [(st, ('uninit_arr',))]
            n = self.const_term(st, v['n'], gs)
            st.zone.touch(n)
            return [(st, ('oarr', self.tag_of(x), n))]
        if k == 'rawptr':
            ptr = self.eval_place(st, fid, v['place'])
            if 'FakeForPtrMetadata' in v['kind']:
                # compiler-generated: only ever fed to PtrMetadata (slice length for a bounds check)
                return [(st, ('ref', False, ptr))]
            if ptr[0] in ('mu', 'pairs', 'slice', 'pair', 'len'):
                self.violate('CENSUS', 'unmodelled', 'raw pointer', 'raw pointer to container storage')
            return [(st, ('opq', ('rawptr',)))]
        raise Unproven('rvalue %s' % k)

    def fork_variants(self, st, ptr, val, fid):
        ty = val[1]
        path = ty['path']
        out = []
        if path in ENUM_VARIANTS:
            nv = len(ENUM_VARIANTS[path])
        else:
            a = self.facts.adts.get(path)
            if a is None:
                t = fresh('d')
                st.zone.touch(t)
                return [(st, I(t))]
            nv = len(a['variants'])
        gs = st.fmeta[fid][1]
        for vi in range(nv):
            s = st.fork() if vi < nv - 1 else st
            ftys = self.adt_field_tys(ty, vi) or []
            fields = tuple(self.mk_unknown(s, ft, val[2] + (vi, i), gs) for i, ft in enumerate(ftys))
            nvval = ('adt', path, vi, fields)
            if fields and getattr(self, 'track_agree', False):
                self.note_loaded(s, val[2], nvval)
            s.log('variant', val[2], vi)
            if len(fields) == 1 and fields[0][0] == 'adt' and self.struct_inv_fields(fields[0][1]) is not None:
                ix = fields[0][3][self.struct_inv_fields(fields[0][1])[0]]
                if ix[0] == 'int':
                    s.log('variant-val', val[2], vi, ix[1])
            for s2 in self.store(s, ptr, nvval):
                out.append((s2, I(vi)))
        return out

    INT_BITS = {'u8': 8, 'i8': 8, 'u16': 16, 'i16': 16, 'u32': 32, 'i32': 32, 'u64': 64, 'i64': 64,
                'u128': 128, 'i128': 128, 'usize': 64, 'isize': 64}

    def shift_check(self, st, fid, v, a, b):
        """SHIFT: `x << n` / `x >> n` with an amount that is not provably below the width of `x` panics in builds
        with overflow checks and silently shifts by `n % width` in the others -- a bit set built that way (one bit
        per slot or per request, `1 << i`) aliases as soon as the container is larger than the word.  The amount
        must be a constant below the width or bounded by the zone."""
        o = v['l']
        ty = None
        if 'const' in o:
            ty = o['const'].get('ty')
        else:
            q = o.get('copy') or o.get('move')
            if q is not None and not q['proj'] and fid in st.fmeta:
                body = self.facts.bodies.get(st.fmeta[fid][0])
                if body is not None:
                    ty = body.locals[q['local']]['ty']
        bits = self.INT_BITS.get((ty or {}).get('name')) if (ty or {}).get('k') == 'prim' else None
        if bits is None:
            return
        if b[0] != 'int':
            ok = False
        elif isinstance(b[1], int):
            ok = 0 <= b[1] < bits
        else:
            ok = st.zone.entails_le(b[1], bits - 1)
        self.oblig('SHIFT', ok, 'shift',
                   'the shift amount %s is not proved to be below the width (%d bits) of the shifted value: the '
                   'operation panics (overflow checks on) or shifts by the amount modulo %d (overflow checks off), '
                   'so a bit per slot / per request aliases for containers larger than the word'
                   % (b[1] if b[0] == 'int' else b[0], bits, bits), 'unproven',
                   sample='amount %s < %d' % (b[1] if b[0] == 'int' else b[0], bits))

    def binop(self, st, op, a, b):
        z = st.zone
        if op in ('Eq', 'Ne', 'Lt', 'Le', 'Gt', 'Ge'):
            return self.compare(st, op, a, b)
        base = op.replace('WithOverflow', '').replace('Unchecked', '')
        checked = op.endswith('WithOverflow')
        if base == 'Sub' and b[0] == 'minof' and to_aff(a) is not None:
            # a - min(a, c) == max(0, a - c)
            for x, y in ((b[1], b[2]), (b[2], b[1])):
                ax, ay = to_aff(x), to_aff(y)
                if ax is not None and ay is not None and aff_add(to_aff(a), ax, -1) == ((), 0):
                    res = ('satsub', aff_norm(aff_add(to_aff(a), ay, -1)))
                    return ('tuple', (res, FALSE)) if checked else res
        if base in ('Add', 'Sub') and (a[0] == 'aff' or b[0] == 'aff') and to_aff(a) is not None and to_aff(b) is not None:
            res = aff_norm(aff_add(to_aff(a), to_aff(b), 1 if base == 'Add' else -1))
            return ('tuple', (res, ('boolu', ('ovf',)))) if checked else res
        if base in ('Add', 'Sub') and a[0] in ('int', 'slen') and b[0] in ('int', 'slen'):
            if a[0] == 'slen' or b[0] == 'slen':
                # only used by size_hint-style code: kept as a symbolic affine expression
                res = aff_norm(aff_add(to_aff(a), to_aff(b), 1 if base == 'Add' else -1))
                return ('tuple', (res, ('boolu', ('ovf',)))) if checked else res
            x, y = a[1], b[1]
            if isinstance(x, int) and isinstance(y, int):
                r = x + y if base == 'Add' else x - y
                if r < 0:
                    t = fresh('r')
                    z.touch(t)
                    return ('tuple', (I(t), TRUE)) if checked else I(t)
                return ('tuple', (I(r), FALSE)) if checked else I(r)
            if base == 'Add' and isinstance(x, int):
                x, y = y, x
            if base == 'Add' and not isinstance(x, int) and not isinstance(y, int):
                # the sum of two symbolic quantities (counts, hints): kept as an affine expression -- a
                # difference-bound zone cannot relate a fresh term to a sum of two others
                res = aff_norm(aff_add(to_aff(a), to_aff(b), 1))
                return ('tuple', (res, ('boolu', ('ovf',)))) if checked else res
            if base == 'Sub' and not isinstance(x, int) and not isinstance(y, int) and z.entails_eq(x, y):
                return ('tuple', (I(0), FALSE)) if checked else I(0)
            t = fresh('r')
            z.touch(t)
            if base == 'Sub' and not isinstance(y, int) and z.entails_le(y, x) and z.entails_le(1, y):
                z.add_le(t, x, -1)      # (x - y <= x - 1 when y >= 1 and nothing wraps)
            if checked:
                cond = ('OvfAdd' if base == 'Add' else 'OvfSub', t, x, y)
                d = self.decide(st, cond)
                if d is False:
                    self.assume_cond(st, cond, False)
                    return ('tuple', (I(t), FALSE))
                return ('tuple', (I(t), ('boolc', cond)))
            # wrapping arithmetic (no overflow check in this build): exact only when the zone
            # already excludes the wrap
            if base == 'Add':
                if isinstance(y, int) and z.has_strict_upper_term(x, y):
                    z.add_eq(t, x, y)
            else:
                if z.entails_le(y, x):
                    if isinstance(y, int):
                        z.add_eq(x, t, y)
                    else:
                        z.add_le(t, x)
            return I(t)
        if op in ('BitAnd', 'BitOr') and a[0] == 'bool' and b[0] == 'bool':
            r = (a[1] and b[1]) if op == 'BitAnd' else (a[1] or b[1])
            return TRUE if r else FALSE
        if a[0] in ('int', 'slen') or b[0] in ('int', 'slen'):
            t = fresh('r')
            z.touch(t)
            return ('tuple', (I(t), ('boolu', ('ovf',)))) if checked else I(t)
        return ('opq', ('binop', op))
