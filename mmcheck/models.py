"""Frozen semantic models of the core functions micromap calls (DESIGN.md §9, §11).

Each model:  m(E, st, fid, term, args, dest_ty) -> list of (kind, state, value)
with kind in {'ret', 'unwind'}.  The memory-safety of core itself is trusted; a model states the
documented behaviour of the function on the abstract values of the slot interpreter.
One line of justification per entry is kept in MODEL_DOC (printed into the evidence).
"""
import json
from .zone import Term, fresh
from .state import (freeze, MOVED, UNIT, TRUE, FALSE, I, OPTION, RESULT, CFLOW, NONE, some)
from . import slots
from .slots import Unproven
from .facts import ty_is_mu

REGISTRY = {}
MODEL_DOC = {}
ADAPTER_NEXT = {}

MAP_AD = 'core::iter::adapters::map::Map'
ENUMERATE = 'core::iter::adapters::enumerate::Enumerate'
ZIP = 'core::iter::adapters::zip::Zip'
REV = 'core::iter::adapters::rev::Rev'
FLATTEN = 'core::iter::adapters::flatten::Flatten'
CHAIN = 'core::iter::adapters::chain::Chain'
CLONED = 'core::iter::adapters::cloned::Cloned'
COPIED = 'core::iter::adapters::copied::Copied'
RANGE = 'core::ops::range::Range'
RANGE_TO = 'core::ops::range::RangeTo'
RANGE_FROM = 'core::ops::range::RangeFrom'
RANGE_FULL = 'core::ops::range::RangeFull'
IT = 'core::iter::traits::iterator::Iterator::'


def model(names, doc):
    def deco(f):
        for n in ([names] if isinstance(names, str) else names):
            REGISTRY[n] = f
            MODEL_DOC[n] = doc
        return f
    return deco


def ret(st, v):
    return [('ret', st, v)]


def escape(E, st, why, nm):
    """fork an unwinding copy of st (a panic raised inside core)"""
    if st.unwinding:
        return []
    u = st.fork()
    u.unwinding = True
    u.log('panic', why, nm, E.panic_just(u) if why != 'user' else ())
    E.stats['escapes'] += 1
    return [('unwind', u, None)]


def pin(st, fid, v):
    fr = st.frames[fid]
    k = -1
    while k in fr:
        k -= 1
    fr[k] = v
    return ('L', fid, k, ())


def unpin(st, ptr):
    if ptr[1] in st.frames:
        st.frames[ptr[1]].pop(ptr[2], None)


def opt_cases(E, st, v, fid):
    """split an Option value into known cases: list of (state, None | ('some', x))"""
    if v[0] == 'adt' and v[1] == OPTION:
        return [(st, None if v[2] == 0 else ('some', v[3][0]))]
    if v[0] == 'unk' and v[1].get('k') == 'adt' and v[1]['path'] == OPTION:
        a = st.fork()
        ity = v[1]['args'][0] if v[1]['args'] else None
        item = E.mk_unknown(a, ity, v[2] + (1, 0), E.gs_of(st, fid))
        if getattr(E, 'track_agree', False):
            E.note_loaded(a, v[2], item)
        a.log('variant', v[2], 1)
        st.log('variant', v[2], 0)
        return [(st, None), (a, ('some', item))]
    a = st.fork()
    return [(st, None), (a, ('some', ('opq', E.tag_of(v) + ('some',))))]


# ------------------------------------------------------------------------------- loops
def consume(E, st, fid, it_ptr, on_item, on_none, key):
    """drive the iterator at it_ptr to exhaustion (or until on_item says 'done').
    on_item(st, item) -> list of ('cont', st) | ('done', kind, st, val)
    on_none(st)       -> list of (kind, st, val)"""
    table = {}
    results = []
    pending = [st]
    work = []
    while pending or work:
        if not work:
            work = E.join_all(table, key, pending)
            pending = []
            continue
        s = work.pop()
        E.stats['blocks'] += 1
        for kind, s2, opt in E.iter_next(s, it_ptr, fid):
            if kind == 'unwind':
                results.append(('unwind', s2, None))
                continue
            for s3, c in opt_cases(E, s2, opt, fid):
                if c is None:
                    results.extend(on_none(s3))
                else:
                    for r in on_item(s3, c[1]):
                        if r[0] == 'cont':
                            pending.append(r[1])
                        else:
                            results.append(r[1:])
    for r in results:
        E.end_loops(r[1], lambda k: k == key)
    return results


def callback_loop(E, st, fid, closures, key):
    """code without a model received local closures: it may call each of them any number of
    times with arbitrary arguments (of the closure's parameter types)"""
    cells = [pin(st, fid, ('ref', True, E.closure_cell(st, c))) for c in closures]
    table = {}
    results = []
    pending = [st]
    work = []
    while pending or work:
        if not work:
            work = E.join_all(table, ('cb', fid) + tuple(key), pending)
            pending = []
            continue
        s = work.pop()
        E.stats['blocks'] += 1
        # exit
        done = s.fork()
        for c in cells:
            unpin(done, c)
        results.append(('ret', done, None))
        # or one more invocation of one of the closures
        for ci, c in enumerate(cells):
            s1 = s.fork() if ci < len(cells) - 1 else s
            cell = E.load(s1, c)[2]
            f = E.load(s1, cell)
            body = E.facts.bodies.get(f[1]) if f[0] == 'closure' else None
            if body is None:
                continue
            args = []
            for li in range(2, body.arg_count + 1):
                args.append(E.mk_unknown(s1, body.locals[li]['ty'], ('cbarg', li), dict(f[3])))
            s1.log('cb-invoke', ci)
            for kind, s2, _ in E.call_at(s1, cell, args, fid):
                if kind == 'unwind':
                    for c2 in cells:
                        unpin(s2, c2)
                    results.append(('unwind', s2, None))
                else:
                    pending.append(s2)
    for r in results:
        E.end_loops(r[1], lambda k: k == ('cb', fid) + tuple(key))
    return results


# ------------------------------------------------------------------------------- slices / arrays
def _range_bounds(E, st, r, lo0, hi0):
    """Range-like ADT value -> (start, end) terms relative to a slice [lo0, hi0)"""
    if r[0] != 'adt':
        return None
    p = r[1]
    f = r[3]

    def t(v):
        return v[1] if v[0] == 'int' else None
    if p == RANGE_TO:
        return 0, t(f[0])
    if p == RANGE:
        return t(f[0]), t(f[1])
    if p == RANGE_FROM:
        return t(f[0]), 'END'
    if p == RANGE_FULL:
        return 0, 'END'
    return None


@model(['core::array::<impl core::ops::index::Index<I> for [T; N]>::index',
        'core::array::<impl core::ops::index::IndexMut<I> for [T; N]>::index_mut',
        'core::slice::index::<impl core::ops::index::Index<I> for [T]>::index',
        'core::slice::index::<impl core::ops::index::IndexMut<I> for [T]>::index_mut'],
       'range indexing is bounds-checked: panics unless start <= end <= len, else yields exactly that sub-slice')
def m_index(E, st, fid, t, args, dest_ty):
    base, rng = args[0], args[1]
    mut = t['callee']['name'] == 'index_mut'
    nm = t['callee'].get('rdef', 'index')
    if base[0] == 'ref' and base[2][0] in ('pairs', 'slice'):
        p = base[2]
        mid = p[1]
        if p[0] == 'pairs':
            lo0, hi0 = 0, st.maps[mid].cap
        else:
            lo0, hi0 = p[2], p[3]
        b = _range_bounds(E, st, rng, lo0, hi0)
        if b is None or b[0] is None or b[1] is None:
            raise Unproven('indexing slot storage with %r' % (rng[:2],))
        s_rel, e_rel = b
        start = E.add_terms(st, lo0, s_rel) if s_rel != 0 else lo0
        end = hi0 if e_rel == 'END' else (E.add_terms(st, lo0, e_rel) if not (isinstance(lo0, int) and lo0 == 0) else e_rel)
        out = []
        z = st.zone
        ok = z.entails_le(start, end) and z.entails_le(end, hi0)
        if not ok:
            out.extend(escape(E, st, 'core', 'slice index out of range'))
        z.add_le(start, end)
        z.add_le(end, hi0)
        if not z.sat:
            return out
        st.log('slice', mid, start, end)
        if st.pairs:
            st.log('pairs', tuple((k, E.pairs_complete(st, k), st.pairs.get(k), '') for k in st.pairs))
        st.maps[mid].examined = None     # a new pass over the slots begins: earlier partial scans are void
        out.append(('ret', st, ('ref', mut, ('slice', mid, start, end))))
        return out
    # opaque array / slice of user data
    out = escape(E, st, 'core', 'index out of range')
    tag = E.tag_of(base)
    bv = E.peek(st, base[2]) if base[0] == 'ref' else base
    oid = st.new_id('o')
    ln = fresh('u')
    st.zone.touch(ln)
    if rng[0] == 'adt' and rng[1] == RANGE_TO and rng[3][0][0] == 'int':
        st.zone.add_eq(ln, rng[3][0][1])
    if rng[0] == 'adt' and rng[1] in (RANGE_TO, RANGE, RANGE_FROM, RANGE_FULL):
        b = _range_bounds(E, st, rng, 0, 0)
        tracked = None
        if bv[0] == 'oarr':
            tracked = (bv[1], 0, bv[2])
        elif bv[0] == 'oslice' and len(bv) == 5:
            tracked = (bv[1], bv[3], bv[4])
        if tracked is not None and b is not None and b[0] is not None and b[1] is not None:
            btag, lo0, hi0 = tracked
            s_rel, e_rel = b
            lo = E.add_terms(st, lo0, s_rel) if not (isinstance(s_rel, int) and s_rel == 0) else lo0
            hi = hi0 if e_rel == 'END' else (E.add_terms(st, lo0, e_rel) if not (isinstance(lo0, int) and lo0 == 0) else e_rel)
            st.zone.add_le(lo, hi)
            st.zone.add_le(hi, hi0)
            if not st.zone.sat:
                return out
            if isinstance(lo, int) and lo == 0:
                st.zone.add_eq(ln, hi)
            else:
                st.zone.add_le(ln, hi)
            st.objs[oid] = ('oslice', btag, ln, lo, hi)
        else:
            st.objs[oid] = ('oslice', tag, ln)
        out.append(('ret', st, ('ref', mut, ('O', oid, ()))))
    else:
        out.append(('ret', st, ('ref', mut, ('opq', tag + ('[]',)))))
    return out


@model(['<[T] as core::convert::AsRef<[T]>>::as_ref', '<[T] as core::convert::AsMut<[T]>>::as_mut',
        '<I as core::iter::traits::collect::IntoIterator>::into_iter',
        'core::iter::traits::iterator::Iterator::by_ref'],
       'identity on the receiver')
def m_identity(E, st, fid, t, args, dest_ty):
    return ret(st, args[0])


def _slice_of(E, st, r):
    """(mid, lo, hi, mut) for a reference to slot storage, else None"""
    if r[0] == 'ref':
        p = r[2]
        if p[0] == 'slice':
            return p[1], p[2], p[3], r[1]
        if p[0] == 'pairs':
            return p[1], 0, st.maps[p[1]].cap, r[1]
    return None


@model(['core::slice::<impl [T]>::iter', 'core::slice::<impl [T]>::iter_mut',
        "core::slice::iter::<impl core::iter::traits::collect::IntoIterator for &'a [T]>::into_iter",
        "core::slice::iter::<impl core::iter::traits::collect::IntoIterator for &'a mut [T]>::into_iter"],
       'iterator over exactly the elements of the slice, front to back')
def m_iter(E, st, fid, t, args, dest_ty):
    s = _slice_of(E, st, args[0])
    if s is not None:
        mid, lo, hi, mut = s
        st.maps[mid].examined = None     # a new pass over the slots begins
        return ret(st, ('sliceit', mid, lo, hi, mut and 'mut' in t['callee']['name']))
    ety = None
    if dest_ty and dest_ty.get('k') == 'adt' and dest_ty['args']:
        e = dest_ty['args'][0]
        ety = {'k': 'ref', 'mut': 'mut' in t['callee']['name'], 'to': e}
    bv = E.peek(st, args[0][2]) if args[0][0] == 'ref' else args[0]
    if bv[0] == 'oarr':
        return ret(st, ('opqit', bv[1], freeze(ety), 0, bv[2]))
    if bv[0] == 'oslice' and len(bv) == 5:
        return ret(st, ('opqit', bv[1], freeze(ety), bv[3], bv[4]))
    return ret(st, ('opqit', E.tag_of(args[0]), freeze(ety)))


@model('core::array::iter::<impl core::iter::traits::collect::IntoIterator for [T; N]>::into_iter',
       'iterator over exactly the N elements of the array, front to back (by value)')
def m_array_into_iter(E, st, fid, t, args, dest_ty):
    v = args[0]
    if v[0] != 'oarr':
        return E.opaque_call(st, fid, t, args, dest_ty)
    ety = None
    if dest_ty and dest_ty.get('k') == 'adt' and dest_ty['args']:
        ety = dest_ty['args'][0]
    return ret(st, ('opqit', v[1], freeze(ety) if ety else None, 0, v[2]))


@model('core::slice::<impl [T]>::len', 'number of elements of the slice')
def m_len(E, st, fid, t, args, dest_ty):
    s = _slice_of(E, st, args[0])
    if s is not None:
        return ret(st, ('slen', s[1], s[2]))
    if args[0][0] == 'ref':
        v = E.peek(st, args[0][2])
        if v[0] in ('oslice', 'oarr'):
            return ret(st, I(v[2]))
    u = fresh('u')
    st.zone.touch(u)
    return ret(st, I(u))


@model('core::slice::<impl [T]>::is_empty', 'len == 0')
def m_is_empty(E, st, fid, t, args, dest_ty):
    s = _slice_of(E, st, args[0])
    if s is not None:
        return ret(st, E.compare(st, 'Eq', ('slen', s[1], s[2]), I(0)))
    if args[0][0] == 'ref':
        v = E.peek(st, args[0][2])
        if v[0] in ('oslice', 'oarr'):
            return ret(st, E.compare(st, 'Eq', I(v[2]), I(0)))
    return ret(st, ('boolu', ('is_empty',)))


@model(['core::slice::<impl [T]>::get_unchecked', 'core::slice::<impl [T]>::get_unchecked_mut'],
       'UNSAFE: no bounds check; obligation O1 (index < len of the slice)')
def m_get_unchecked(E, st, fid, t, args, dest_ty):
    s = _slice_of(E, st, args[0])
    mut = t['callee']['name'].endswith('_mut')
    prim = t['callee']['name']
    if s is None:
        E.violate('MODEL', 'unmodelled', prim, 'get_unchecked on something that is not slot storage')
        return ret(st, ('ref', mut, ('opq', ('unchecked',))))
    mid, lo, hi, _ = s
    iv = args[1]
    if iv[0] != 'int':
        raise Unproven('get_unchecked with a non-integer index')
    idx = E.add_terms(st, lo, iv[1]) if not (isinstance(lo, int) and lo == 0) else iv[1]
    z = st.zone
    ms = st.maps[mid]
    if E.contract == 'no-append' and z.entails_le(ms.len, idx) and not ms.holes:
        # documented precondition of the unsafe entry point (full map => key present): a path that reaches
        # for the slot behind the live prefix is the append path, which is outside the contract
        from .interp import Pruned
        E.stats['contract_pruned'] += 1
        raise Pruned()
    if E.struct_is_cap(st, mid, hi):
        E.check_index(st, mid, idx, prim)
    else:
        ok = z.entails_lt(idx, hi)
        E.oblig('O1', ok, prim, 'unchecked index %s is not proved < slice end %s' % (idx, hi), 'unproven',
                sample='%s < %s' % (idx, hi))
        z.add_lt(idx, hi)
    st.log('at', mid, idx)
    if st.pairs:
        st.log('pairs', tuple((k, E.pairs_complete(st, k), st.pairs.get(k), '') for k in st.pairs))
    return ret(st, ('ref', mut, ('mu', mid, idx)))


@model(['core::slice::<impl [T]>::get', 'core::slice::<impl [T]>::get_mut'],
       'checked element access: Some(&slice[i]) iff i < len of the slice, else None')
def m_slice_get(E, st, fid, t, args, dest_ty):
    mut = t['callee']['name'].endswith('_mut')
    iv = args[1]
    s = _slice_of(E, st, args[0])
    if s is not None and iv[0] == 'adt' and iv[1] in ('core::ops::range::RangeFrom', 'core::ops::range::RangeTo',
                                                      'core::ops::range::Range') and all(x[0] == 'int' for x in iv[3]):
        # slice.get(a..b) over slot storage: Some(sub-slice) iff the bounds are in order and within the slice
        mid, lo, hi, _ = s
        off = (lambda k: k if (isinstance(lo, int) and lo == 0) else E.add_terms(st, lo, k))
        if iv[1].endswith('RangeFrom'):
            nlo, nhi = off(iv[3][0][1]), hi
        elif iv[1].endswith('RangeTo'):
            nlo, nhi = lo, off(iv[3][0][1])
        else:
            nlo, nhi = off(iv[3][0][1]), off(iv[3][1][1])
        out = []
        a = st.fork()
        a.zone.add_le(lo, nlo)
        a.zone.add_le(nlo, nhi)
        a.zone.add_le(nhi, hi)
        if a.zone.sat:
            a.log('slice', mid, nlo, nhi)
            out.append(('ret', a, some(('ref', mut, ('slice', mid, nlo, nhi)))))
        for cond in ((nhi, nlo), (hi, nhi)):
            b = st.fork()
            b.zone.add_lt(cond[0], cond[1])
            if b.zone.sat:
                out.append(('ret', b, NONE))
        return out
    if s is None or iv[0] != 'int':
        tr = _tracked_oslice(E, st, args[0]) if iv[0] == 'int' else None
        if tr is None:
            if s is not None:
                raise Unproven('slice::get with a non-integer index over slot storage')
            return E.opaque_call(st, fid, t, args, dest_ty)
        tg, lo, hi, ln = tr
        idx = E.add_terms(st, lo, iv[1]) if not (isinstance(lo, int) and lo == 0) else iv[1]
        out = []
        a = st.fork()
        a.zone.add_lt(idx, hi)
        if a.zone.sat:
            out.append(('ret', a, some(('ref', mut, ('opq', ('elem', tg, idx))))))
        st.zone.add_le(hi, idx)
        if st.zone.sat:
            out.append(('ret', st, NONE))
        return out
    mid, lo, hi, _ = s
    idx = E.add_terms(st, lo, iv[1]) if not (isinstance(lo, int) and lo == 0) else iv[1]
    out = []
    a = st.fork()
    a.zone.add_lt(idx, hi)
    if a.zone.sat:
        a.log('at', mid, idx)
        if a.pairs:
            a.log('pairs', tuple((k, E.pairs_complete(a, k), a.pairs.get(k), '') for k in a.pairs))
        out.append(('ret', a, some(('ref', mut, ('mu', mid, idx)))))
    st.zone.add_le(hi, idx)
    if st.zone.sat:
        out.append(('ret', st, NONE))
    return out


@model(['core::slice::<impl [T]>::split_at_mut', 'core::slice::<impl [T]>::split_at'],
       'panics if mid > len; otherwise the two disjoint halves [0,mid) and [mid,len)')
def m_split_at_mut(E, st, fid, t, args, dest_ty):
    s = _slice_of(E, st, args[0])
    if s is None:
        return E.opaque_call(st, fid, t, args, dest_ty)
    mid, lo, hi, mut = s
    k = args[1]
    if k[0] != 'int':
        raise Unproven('split_at_mut with a non-integer index')
    out = []
    cut = E.add_terms(st, lo, k[1]) if not (isinstance(lo, int) and lo == 0) else k[1]
    z = st.zone
    if not z.entails_le(cut, hi):
        out.extend(escape(E, st, 'core', 'split_at_mut: mid > len'))
    z.add_le(cut, hi)
    z.add_le(lo, cut)
    if not z.sat:
        return out
    mu = t['callee']['name'].endswith('_mut')
    v = ('tuple', (('ref', mu, ('slice', mid, lo, cut)), ('ref', mu, ('slice', mid, cut, hi))))
    st.log('slice', mid, lo, cut)
    out.append(('ret', st, v))
    return out


@model(["core::slice::iter::Iter::<'a, T>::as_slice", "core::slice::iter::IterMut::<'a, T>::as_slice"],
       'the not-yet-yielded elements, as a slice')
def m_as_slice(E, st, fid, t, args, dest_ty):
    it = E.load(st, args[0][2]) if args[0][0] == 'ref' else args[0]
    if it[0] == 'sliceit':
        return ret(st, ('ref', False, ('slice', it[1], it[2], it[3])))
    return E.opaque_call(st, fid, t, args, dest_ty)


@model(["<core::slice::iter::Iter<'_, T> as core::clone::Clone>::clone"], 'a copy of the cursor pair')
def m_sliceit_clone(E, st, fid, t, args, dest_ty):
    it = E.load(st, args[0][2])
    return ret(st, it)


@model(["<core::slice::iter::Iter<'_, T> as core::iter::traits::exact_size::ExactSizeIterator>::len",
        "<core::slice::iter::IterMut<'_, T> as core::iter::traits::exact_size::ExactSizeIterator>::len"],
       'number of elements not yet yielded')
def m_sliceit_len(E, st, fid, t, args, dest_ty):
    it = E.load(st, args[0][2])
    if it[0] == 'sliceit':
        return ret(st, ('slen', it[2], it[3]))
    u = fresh('u')
    st.zone.touch(u)
    return ret(st, I(u))


@model(["<core::slice::iter::Iter<'a, T> as core::iter::traits::iterator::Iterator>::size_hint",
        "<core::slice::iter::IterMut<'a, T> as core::iter::traits::iterator::Iterator>::size_hint"],
       '(n, Some(n)) with n the number of elements not yet yielded')
def m_sliceit_size_hint(E, st, fid, t, args, dest_ty):
    it = E.load(st, args[0][2])
    if it[0] == 'sliceit':
        n = ('slen', it[2], it[3])
        return ret(st, ('tuple', (n, some(n))))
    return E.opaque_call(st, fid, t, args, dest_ty)


# ------------------------------------------------------------------------------- iterator next
@model(["<core::slice::iter::Iter<'a, T> as core::iter::traits::iterator::Iterator>::next",
        "<core::slice::iter::IterMut<'a, T> as core::iter::traits::iterator::Iterator>::next",
        '<&mut I as core::iter::traits::iterator::Iterator>::next',
        '<core::array::iter::IntoIter<T, N> as core::iter::traits::iterator::Iterator>::next',
        '<core::iter::adapters::chain::Chain<A, B> as core::iter::traits::iterator::Iterator>::next',
        '<core::iter::adapters::enumerate::Enumerate<I> as core::iter::traits::iterator::Iterator>::next',
        '<core::iter::adapters::flatten::Flatten<I> as core::iter::traits::iterator::Iterator>::next',
        '<core::iter::adapters::cloned::Cloned<I> as core::iter::traits::iterator::Iterator>::next',
        '<core::iter::adapters::copied::Copied<I> as core::iter::traits::iterator::Iterator>::next',
        '<core::iter::adapters::map::Map<I, F> as core::iter::traits::iterator::Iterator>::next',
        '<core::iter::adapters::zip::Zip<A, B> as core::iter::traits::iterator::Iterator>::next',
        '<core::iter::adapters::rev::Rev<I> as core::iter::traits::iterator::Iterator>::next',
        'core::iter::range::<impl core::iter::traits::iterator::Iterator for core::ops::range::Range<A>>::next'],
       'next(): slice iterators yield each remaining element once, front to back; adaptors as documented')
def m_next(E, st, fid, t, args, dest_ty):
    ity = None
    if dest_ty and dest_ty.get('k') == 'adt' and dest_ty['path'] == OPTION and dest_ty['args']:
        ity = dest_ty['args'][0]
    return E.iter_next(st, args[0][2], fid, ity)


def _field_ptr(E, st, ptr, i):
    return E.extend(st, ptr, i)


def _range_aux(E, st, ptr, start, end):
    """first pull from `0..end` where end equals a container's len: remember end - start (of the Range stored at
    ptr) and len - i (for the integer locals i that are 0 right now) as auxiliary differences (slots.aux_*)"""
    z = st.zone
    if isinstance(end, int) or not (start == 0 or (isinstance(start, Term) and z.entails_eq(start, 0))):
        return
    mids = [m for m, ms in st.maps.items() if not ms.dead and not ms.phantom and z.entails_eq(end, ms.len)]
    if not mids and not any(not ms.dead and not ms.phantom and z.entails_le(end, ms.len) for ms in st.maps.values()):
        return
    rs, re_ = ('rs', ptr), ('re', ptr)
    if slots.aux_find(st, re_, rs) is None:
        d = fresh('x')
        z.add_eq(d, end)            # start == 0
        slots.aux_set(st, re_, rs, d)
    for mid in mids:
        for fid, fr in st.frames.items():
            for l, v in fr.items():
                if isinstance(l, int) and l > 0 and isinstance(v, tuple) and len(v) == 2 and v[0] == 'int' \
                        and (v[1] == 0 if isinstance(v[1], int) else z.entails_eq(v[1], 0)):
                    hi, lo = ('len', mid), ('loc', fid, l)
                    if slots.aux_find(st, hi, lo) is None and len(st.aux) < 6:
                        d = fresh('x')
                        z.add_eq(d, st.maps[mid].len)       # the local is 0
                        slots.aux_set(st, hi, lo, d)


def ad_range_next(E, st, ptr, v, fid, item_ty=None):
    a, b = v[3]
    if a[0] != 'int' or b[0] != 'int':
        raise Unproven('Range of non-integers')
    out = []
    s1 = st.fork()
    s1.zone.add_lt(a[1], b[1])
    if s1.zone.sat:
        _range_aux(E, s1, ptr, a[1], b[1])
        d = slots.aux_find(s1, ('re', ptr), ('rs', ptr))
        if d is not None and not isinstance(d, int):
            s1.zone.add_lt(0, d)        # start < end was just assumed
        n = slots.plus(s1, a[1], 1)
        slots.aux_shift(s1, ('rs', ptr), 1)
        E.store(s1, ptr, ('adt', RANGE, 0, (I(n), b)))
        out.append(('ret', s1, some(a)))
    st.zone.add_le(b[1], a[1])
    if st.zone.sat:
        d = slots.aux_find(st, ('re', ptr), ('rs', ptr))
        if d is not None and not isinstance(d, int):
            st.zone.add_le(d, 0)        # the range is used up: end - start == 0
        if st.zone.sat:
            out.append(('ret', st, NONE))
    return out


ADAPTER_NEXT[RANGE] = ad_range_next


def ad_map_next(E, st, ptr, v, fid, item_ty=None):
    out = []
    for kind, s, opt in E.iter_next(st, _field_ptr(E, st, ptr, 0), fid):
        if kind == 'unwind':
            out.append((kind, s, None))
            continue
        for s2, c in opt_cases(E, s, opt, fid):
            if c is None:
                out.append(('ret', s2, NONE))
            else:
                for k2, s3, r in E.call_at(s2, _field_ptr(E, s2, ptr, 1), [c[1]], fid):
                    out.append((k2, s3, some(r) if k2 == 'ret' else None))
    return out


ADAPTER_NEXT[MAP_AD] = ad_map_next


def ad_enumerate_next(E, st, ptr, v, fid, item_ty=None):
    out = []
    for kind, s, opt in E.iter_next(st, _field_ptr(E, st, ptr, 0), fid):
        if kind == 'unwind':
            out.append((kind, s, None))
            continue
        for s2, c in opt_cases(E, s, opt, fid):
            if c is None:
                out.append(('ret', s2, NONE))
            else:
                cur = E.load(s2, _field_ptr(E, s2, ptr, 1))
                n = slots.plus(s2, cur[1], 1)
                E.store(s2, _field_ptr(E, s2, ptr, 1), I(n))
                out.append(('ret', s2, some(('tuple', (cur, c[1])))))
    return out


ADAPTER_NEXT[ENUMERATE] = ad_enumerate_next


def ad_zip_next(E, st, ptr, v, fid, item_ty=None):
    out = []
    for kind, s, oa in E.iter_next(st, _field_ptr(E, st, ptr, 0), fid):
        if kind == 'unwind':
            out.append((kind, s, None))
            continue
        for s2, ca in opt_cases(E, s, oa, fid):
            if ca is None:
                out.append(('ret', s2, NONE))
                continue
            for k3, s3, ob in E.iter_next(s2, _field_ptr(E, s2, ptr, 1), fid):
                if k3 == 'unwind':
                    out.append((k3, s3, None))
                    continue
                for s4, cb in opt_cases(E, s3, ob, fid):
                    if cb is None:
                        out.append(('ret', s4, NONE))
                    else:
                        out.append(('ret', s4, some(('tuple', (ca[1], cb[1])))))
    return out


ADAPTER_NEXT[ZIP] = ad_zip_next


def ad_chain_next(E, st, ptr, v, fid, item_ty=None):
    out = []
    a = E.load(st, _field_ptr(E, st, ptr, 0))
    if a[0] == 'adt' and a[1] == OPTION and a[2] == 1:
        ap = E.extend(st, _field_ptr(E, st, ptr, 0), 0)
        for kind, s, opt in E.iter_next(st, ap, fid):
            if kind == 'unwind':
                out.append((kind, s, None))
                continue
            for s2, c in opt_cases(E, s, opt, fid):
                if c is not None:
                    out.append(('ret', s2, some(c[1])))
                else:
                    E.store(s2, _field_ptr(E, s2, ptr, 0), NONE)
                    out.extend(ad_chain_next(E, s2, ptr, E.load(s2, ptr), fid, item_ty))
        return out
    b = E.load(st, _field_ptr(E, st, ptr, 1))
    if b[0] == 'adt' and b[1] == OPTION and b[2] == 1:
        bp = E.extend(st, _field_ptr(E, st, ptr, 1), 0)
        return E.iter_next(st, bp, fid, item_ty)
    return ret(st, NONE)


ADAPTER_NEXT[CHAIN] = ad_chain_next


def ad_cloned_next(E, st, ptr, v, fid, item_ty=None):
    out = []
    for kind, s, opt in E.iter_next(st, _field_ptr(E, st, ptr, 0), fid):
        if kind == 'unwind':
            out.append((kind, s, None))
            continue
        for s2, c in opt_cases(E, s, opt, fid):
            if c is None:
                out.append(('ret', s2, NONE))
            else:
                s2.log('user', 'core::clone::Clone::clone', (E.tag_of(c[1]),))
                E.stats['user_calls'] += 1
                E.invalidate_examined(s2, ('clone',))     # a new clone: scans made for earlier clones are void
                if v[1] == CLONED:
                    out.extend(escape(E, s2, 'user', 'Clone::clone'))
                out.append(('ret', s2, some(('opq', ('clone', E.tag_of(c[1]))))))
    return out


ADAPTER_NEXT[CLONED] = ad_cloned_next
ADAPTER_NEXT[COPIED] = ad_cloned_next


def ad_rev_next(E, st, ptr, v, fid, item_ty=None):
    inner = E.load(st, _field_ptr(E, st, ptr, 0))
    if inner[0] == 'adt' and inner[1] == ENUMERATE and inner[3][0][0] == 'sliceit' and inner[3][1][0] == 'int':
        # Rev<Enumerate<slice iterator>>: the back element, with the index count + remaining - 1; as long as the
        # enumeration has only been consumed from the back (count == front of the slice cursor) that is the
        # position of the element itself
        _, mid, fr, bk, mut = inner[3][0]
        cnt = inner[3][1][1]
        if not ((isinstance(cnt, int) and isinstance(fr, int) and cnt == fr) or st.zone.entails_eq(cnt, fr)):
            raise Unproven('Rev<Enumerate<..>> after the enumeration was advanced from the front')
        out = []
        a = st.fork()
        a.zone.add_lt(fr, bk)
        if a.zone.sat:
            nb = fresh('p')
            a.zone.add_eq(bk, nb, 1)
            ip = _field_ptr(E, a, ptr, 0)
            E.store(a, _field_ptr(E, a, ip, 0), ('sliceit', mid, fr, nb, mut))
            a.log('adv', mid, nb, 'back')
            out.append(('ret', a, some(('tuple', (I(nb), ('ref', mut, ('mu', mid, nb)))))))
        st.zone.add_le(bk, fr)
        if st.zone.sat:
            st.log('cursor-end', mid)
            out.append(('ret', st, NONE))
        return out
    if inner[0] == 'sliceit':
        _, mid, fr, bk, mut = inner
        out = []
        a = st.fork()
        a.zone.add_lt(fr, bk)
        if a.zone.sat:
            nb = fresh('p')
            a.zone.add_eq(bk, nb, 1)
            E.store(a, _field_ptr(E, a, ptr, 0), ('sliceit', mid, fr, nb, mut))
            a.log('adv', mid, nb, 'back')
            if getattr(E, 'track_adv', False):
                E.ghost_bump(a, ('adv', mid))
            out.append(('ret', a, some(('ref', mut, ('mu', mid, nb)))))
        st.zone.add_le(bk, fr)
        if st.zone.sat:
            st.log('cursor-end', mid)
            out.append(('ret', st, NONE))
        return out
    return E.iter_next(st, _field_ptr(E, st, ptr, 0), fid, item_ty)


ADAPTER_NEXT[REV] = ad_rev_next


def ad_flatten_next(E, st, ptr, v, fid, item_ty=None):
    # only used over iterators of Option<..> of user data: some elements are skipped
    out = []
    for kind, s, opt in E.iter_next(st, _field_ptr(E, st, ptr, 0), fid):
        if kind == 'unwind':
            out.append((kind, s, None))
            continue
        for s2, c in opt_cases(E, s, opt, fid):
            if c is None:
                out.append(('ret', s2, NONE))
            else:
                if E.sensitive(s2, c[1]):
                    raise Unproven('flatten over slot storage')
                item = E.mk_unknown(s2, item_ty, ('flat',), E.gs_of(st, fid))
                if getattr(E, 'track_agree', False):
                    src = c[1]
                    if src[0] == 'ref' and src[2][0] == 'opq' and isinstance(src[2][1], tuple) and src[2][1][:1] == ('elem',):
                        E.note_loaded(s2, src[2][1], item)
                out.append(('ret', s2, some(item)))
    return out


def _flatten_item_ty(v):
    # item of Flatten<Iter<Option<T>>> is &T
    if v[0] == 'ref':
        return None
    return None


ADAPTER_NEXT[FLATTEN] = ad_flatten_next

FILTER = 'core::iter::adapters::filter::Filter'
FILTER_MAP = 'core::iter::adapters::filter_map::FilterMap'


def ad_filter_next(E, st, ptr, v, fid, item_ty=None):
    """Filter::next: pull from the inner iterator until the predicate (given a reference to the item) says yes"""
    it_ptr = _field_ptr(E, st, ptr, 0)
    cellp = _field_ptr(E, st, ptr, 1)

    def on_item(s, item):
        ip2 = pin(s, fid, item)
        out = []
        for kind, s2, r in E.call_at(s, cellp, [('ref', False, ip2)], fid):
            if kind == 'unwind':
                out.append(('done', 'unwind', s2, None))
                continue
            it2 = E.load(s2, ip2)
            unpin(s2, ip2)
            answer_check(E, s2, r, it2, 'find')
            yes, no = E.split_bool(s2, r, True)
            if yes is not None:
                yes.log('found', E.tag_of(it2))
                out.append(('done', 'ret', yes, some(it2)))
            if no is not None:
                out.append(('cont', no))
        return out

    def on_none(s):
        return [('ret', s, NONE)]

    return consume(E, st, fid, it_ptr, on_item, on_none, ('filter', fid))


def ad_filter_map_next(E, st, ptr, v, fid, item_ty=None):
    """FilterMap::next: pull from the inner iterator until the closure answers Some(..)"""
    it_ptr = _field_ptr(E, st, ptr, 0)
    cellp = _field_ptr(E, st, ptr, 1)

    def on_item(s, item):
        out = []
        for kind, s2, r in E.call_at(s, cellp, [item], fid):
            if kind == 'unwind':
                out.append(('done', 'unwind', s2, None))
                continue
            for s3, c in opt_cases(E, s2, r, fid):
                if c is None:
                    out.append(('cont', s3))
                else:
                    out.append(('done', 'ret', s3, some(c[1])))
        return out

    def on_none(s):
        return [('ret', s, NONE)]

    return consume(E, st, fid, it_ptr, on_item, on_none, ('filter_map', fid))


ADAPTER_NEXT[FILTER] = ad_filter_next
ADAPTER_NEXT[FILTER_MAP] = ad_filter_map_next


# ------------------------------------------------------------------------------- adaptors (lazy)
def _adapter(path):
    def m(E, st, fid, t, args, dest_ty):
        return ret(st, ('adt', path, 0, tuple(args)))
    return m


REGISTRY[IT + 'map'] = _adapter(MAP_AD)
MODEL_DOC[IT + 'map'] = 'lazy: Map{iter, f}; f is applied to each item of iter when it is pulled'
REGISTRY[IT + 'zip'] = _adapter(ZIP)
MODEL_DOC[IT + 'zip'] = 'lazy: yields pairs until either side ends'
REGISTRY[IT + 'rev'] = _adapter(REV)
MODEL_DOC[IT + 'rev'] = 'lazy: pulls from the back'
REGISTRY[IT + 'flatten'] = _adapter(FLATTEN)
MODEL_DOC[IT + 'flatten'] = 'lazy: flattens'
REGISTRY[IT + 'filter'] = _adapter(FILTER)
MODEL_DOC[IT + 'filter'] = 'lazy: yields the items for which the predicate answers true'
REGISTRY[IT + 'filter_map'] = _adapter(FILTER_MAP)
MODEL_DOC[IT + 'filter_map'] = 'lazy: yields x for the items on which the closure answers Some(x)'
REGISTRY[IT + 'cloned'] = _adapter(CLONED)
MODEL_DOC[IT + 'cloned'] = 'lazy: clones each item'
REGISTRY[IT + 'copied'] = _adapter(COPIED)
MODEL_DOC[IT + 'copied'] = 'lazy: copies each item'


@model(IT + 'enumerate', 'lazy: pairs each item with its 0-based position')
def m_enumerate(E, st, fid, t, args, dest_ty):
    return ret(st, ('adt', ENUMERATE, 0, (args[0], I(0))))


@model(IT + 'chain', 'lazy: all of a, then all of b')
def m_chain(E, st, fid, t, args, dest_ty):
    return ret(st, ('adt', CHAIN, 0, (some(args[0]), some(args[1]))))


@model('<core::iter::adapters::chain::Chain<A, B> as core::clone::Clone>::clone',
       'clones both halves (here: reference-only iterators, cloning copies cursors)')
def m_chain_clone(E, st, fid, t, args, dest_ty):
    v = E.load(st, args[0][2])
    return ret(st, v)


# ------------------------------------------------------------------------------- consumers
def _with_iter(E, st, fid, itv):
    """pin an iterator value (or use the place behind a &mut) -> pointer"""
    if itv[0] == 'ref':
        return itv[2], None
    p = pin(st, fid, itv)
    return p, p


def _finish(results, pins):
    for r in results:
        for p in pins:
            if p is not None:
                unpin(r[1], p)
    return results


def answer_check(E, s, r, item, what):
    """ANSWER (roots that resolve several requested keys at once): while the requests handed in by the caller are
    scanned for a stored key, a request may be declared (non-)matching only by the answer of the user's `==`;
    a predicate that answers from anything else (a size pre-filter, a bit mask, a constant) silently skips a
    request whose key is present"""
    if not getattr(E, 'track_agree', False):
        return
    arrs = getattr(E, 'agree_arrays', ())
    if not arrs:
        return
    try:
        it = E.rtag(s, item)
    except Exception:
        return
    if not any(E.tag_mentions(it, a) for a in arrs):
        return
    t = r[1] if (isinstance(r, tuple) and len(r) > 1 and r[0] == 'boolu') else None
    while isinstance(t, tuple) and len(t) == 2 and t[0] == 'not':
        t = t[1]
    ok = isinstance(t, tuple) and bool(t) and t[0] == 'eq'
    E.oblig('ANSWER', ok, what,
            'the scan of the requested keys declares a request matching / not matching without that being the answer '
            'of `==` between the request and the stored key (predicate result: %s): a present key can be reported '
            'absent' % (short_r(r),), 'refuted', props=sorted(getattr(E, 'agree_props', None) or ()),
            sample='predicate answers with %s' % (short_r(r),))


def short_r(r):
    s = str(r)
    return s if len(s) < 160 else s[:160] + '...'


@model([IT + 'find', "<core::slice::iter::Iter<'a, T> as core::iter::traits::iterator::Iterator>::find",
        "<core::slice::iter::IterMut<'a, T> as core::iter::traits::iterator::Iterator>::find"],
       'pulls items front to back; returns the first one for which the predicate answers true, None when exhausted')
def m_find(E, st, fid, t, args, dest_ty):
    it_ptr, ip = _with_iter(E, st, fid, args[0])
    cell = pin(st, fid, ('ref', True, E.closure_cell(st, args[1])))

    def cellp(s):
        return E.load(s, cell)[2]

    def on_item(s, item):
        ip2 = pin(s, fid, item)
        out = []
        for kind, s2, r in E.call_at(s, cellp(s), [('ref', False, ip2)], fid):
            if kind == 'unwind':
                out.append(('done', 'unwind', s2, None))
                continue
            it2 = E.load(s2, ip2)
            unpin(s2, ip2)
            yes, no = E.split_bool(s2, r, True)
            if yes is not None:
                yes.log('found', E.tag_of(it2))
                out.append(('done', 'ret', yes, some(it2)))
            if no is not None:
                out.append(('cont', no))
        return out

    def on_none(s):
        s.log('exhausted', 'find')
        return [('ret', s, NONE)]

    return _finish(consume(E, st, fid, it_ptr, on_item, on_none, ('find', fid)), [ip, cell])


@model(["<core::slice::iter::Iter<'a, T> as core::iter::traits::iterator::Iterator>::nth",
        "<core::slice::iter::IterMut<'a, T> as core::iter::traits::iterator::Iterator>::nth"],
       'jumps over n elements: Some(element n of the rest), cursor right behind it; None (and exhausted) when fewer remain')
def m_sliceit_nth(E, st, fid, t, args, dest_ty):
    ptr = args[0][2]
    it = E.load(st, ptr)
    n = args[1]
    if it[0] != 'sliceit' or n[0] != 'int':
        return E.opaque_call(st, fid, t, args, dest_ty)
    _, mid, fr, bk, mut = it
    out = []
    a = st.fork()
    z = a.zone
    tt = fresh('n')          # the slot fr + n (a sum of two terms: only its bounds are known to the zone)
    z.add_le(fr, tt)
    z.add_le(n[1], tt) if not isinstance(n[1], int) else None
    z.add_lt(tt, bk)
    if isinstance(n[1], int):
        z.add_eq(tt, fr, n[1])
    elif z.entails_eq(fr, 0):
        z.add_eq(tt, n[1])
    if z.sat:
        E.store(a, ptr, ('sliceit', mid, slots.plus(a, tt, 1), bk, mut))
        a.log('adv', mid, tt, 'front')
        if getattr(E, 'track_adv', False):
            # n + 1 advances at once (exact when nothing was counted before)
            g = a.ghost.get(('adv', mid))
            if g is None and not isinstance(n[1], int):
                a.ghost[('adv', mid)] = (slots.plus(a, n[1], 1), ())
            elif g is None:
                a.ghost[('adv', mid)] = (n[1] + 1, ())
            else:
                u = fresh('g')
                z.add_le(g[0], u)
                a.ghost[('adv', mid)] = (u, ())
        out.append(('ret', a, some(('ref', mut, ('mu', mid, tt)))))
    b = st
    # fewer than n + 1 remain: the iterator is emptied
    E.store(b, ptr, ('sliceit', mid, bk, bk, mut))
    b.log('cursor-end', mid)
    b.log('nth-short', mid)
    out.append(('ret', b, NONE))
    return out


@model(["<core::slice::iter::Iter<'a, T> as core::iter::traits::double_ended::DoubleEndedIterator>::next_back",
        "<core::slice::iter::IterMut<'a, T> as core::iter::traits::double_ended::DoubleEndedIterator>::next_back"],
       'the last remaining element (the back end moves down by one), None when nothing remains')
def m_sliceit_next_back(E, st, fid, t, args, dest_ty):
    ptr = args[0][2]
    it = E.load(st, ptr)
    if it[0] != 'sliceit':
        return E.opaque_call(st, fid, t, args, dest_ty)
    _, mid, fr, bk, mut = it
    out = []
    a = st.fork()
    a.zone.add_lt(fr, bk)
    if a.zone.sat:
        nb = fresh('p')
        a.zone.add_eq(bk, nb, 1)
        E.store(a, ptr, ('sliceit', mid, fr, nb, mut))
        a.log('adv', mid, nb, 'back')
        out.append(('ret', a, some(('ref', mut, ('mu', mid, nb)))))
    st.zone.add_le(bk, fr)
    if st.zone.sat:
        st.log('cursor-end', mid)
        out.append(('ret', st, NONE))
    return out


@model(IT + 'nth', 'n times next() (stopping at the first None), then next()')
def m_nth(E, st, fid, t, args, dest_ty):
    if t['callee']['resolved'] == 'unresolved':
        # (unresolved in the generic MIR; the receiver may still be, in this inlining context, an iterator of core)
        r = E.dispatch_by_value(st, fid, t, args, dest_ty)
        return r if r is not None else E.user_call(st, fid, t, args, dest_ty)
    it_ptr, ip = _with_iter(E, st, fid, args[0])
    n = args[1]
    if n[0] != 'int':
        return E.opaque_call(st, fid, t, args, dest_ty)
    cnt = pin(st, fid, I(0))

    def on_item(s, item):
        c = E.load(s, cnt)[1]
        out = []
        a = s.fork()
        if isinstance(c, int) and isinstance(n[1], int):
            feasible_eq, feasible_lt = c == n[1], c < n[1]
        else:
            feasible_eq = feasible_lt = True
        if feasible_eq:
            a.zone.add_eq(c, n[1])
            if a.zone.sat:
                out.append(('done', 'ret', a, some(item)))
        if feasible_lt:
            s.zone.add_lt(c, n[1])
            if s.zone.sat:
                E.store(s, cnt, I(slots.plus(s, c, 1)))
                out.append(('cont', s))
        return out

    def on_none(s):
        return [('ret', s, NONE)]

    return _finish(consume(E, st, fid, it_ptr, on_item, on_none, ('nth', fid)), [ip, cnt])


@model(IT + 'last', 'drives the iterator to its end and returns the last item it gave')
def m_last(E, st, fid, t, args, dest_ty):
    if t['callee']['resolved'] == 'unresolved':
        # (unresolved in the generic MIR; the receiver may still be, in this inlining context, an iterator of core)
        r = E.dispatch_by_value(st, fid, t, args, dest_ty)
        return r if r is not None else E.user_call(st, fid, t, args, dest_ty)
    it_ptr, ip = _with_iter(E, st, fid, args[0])
    acc = pin(st, fid, NONE)

    def on_item(s, item):
        E.store(s, acc, some(item))
        return [('cont', s)]

    def on_none(s):
        return [('ret', s, E.load(s, acc))]

    return _finish(consume(E, st, fid, it_ptr, on_item, on_none, ('last', fid)), [ip, acc])


@model(IT + 'find_map', 'pulls items front to back; returns the first Some(..) the closure answers, None when exhausted')
def m_find_map(E, st, fid, t, args, dest_ty):
    it_ptr, ip = _with_iter(E, st, fid, args[0])
    cell = pin(st, fid, ('ref', True, E.closure_cell(st, args[1])))

    def on_item(s, item):
        out = []
        for kind, s2, r in E.call_at(s, E.load(s, cell)[2], [item], fid):
            if kind == 'unwind':
                out.append(('done', 'unwind', s2, None))
                continue
            for s3, c in opt_cases(E, s2, r, fid):
                if c is None:
                    out.append(('cont', s3))
                else:
                    s3.log('found', E.tag_of(item))
                    out.append(('done', 'ret', s3, some(c[1])))
        return out

    def on_none(s):
        s.log('exhausted', 'find_map')
        return [('ret', s, NONE)]

    return _finish(consume(E, st, fid, it_ptr, on_item, on_none, ('find_map', fid)), [ip, cell])


@model([IT + 'position', "<core::slice::iter::Iter<'a, T> as core::iter::traits::iterator::Iterator>::position"],
       'index of the first item for which the predicate answers true')
def m_position(E, st, fid, t, args, dest_ty):
    it_ptr, ip = _with_iter(E, st, fid, args[0])
    cell = pin(st, fid, ('ref', True, E.closure_cell(st, args[1])))
    cnt = pin(st, fid, I(0))

    def on_item(s, item):
        out = []
        for kind, s2, r in E.call_at(s, E.load(s, cell)[2], [item], fid):
            if kind == 'unwind':
                out.append(('done', 'unwind', s2, None))
                continue
            answer_check(E, s2, r, item, 'position')
            yes, no = E.split_bool(s2, r, True)
            if yes is not None:
                cur = E.load(yes, cnt)
                yes.log('found', ('position', E.tag_of(item)))
                out.append(('done', 'ret', yes, some(cur)))
            if no is not None:
                cur = E.load(no, cnt)
                E.store(no, cnt, I(slots.plus(no, cur[1], 1)))
                out.append(('cont', no))
        return out

    def on_none(s):
        s.log('exhausted', 'position')
        return [('ret', s, NONE)]

    return _finish(consume(E, st, fid, it_ptr, on_item, on_none, ('position', fid)), [ip, cell, cnt])


def _any_all(is_any):
    def m(E, st, fid, t, args, dest_ty):
        it_ptr, ip = _with_iter(E, st, fid, args[0])
        cell = pin(st, fid, ('ref', True, E.closure_cell(st, args[1])))

        def on_item(s, item):
            out = []
            for kind, s2, r in E.call_at(s, E.load(s, cell)[2], [item], fid):
                if kind == 'unwind':
                    out.append(('done', 'unwind', s2, None))
                    continue
                answer_check(E, s2, r, item, 'any' if is_any else 'all')
                yes, no = E.split_bool(s2, r, True)
                if is_any:
                    if yes is not None:
                        yes.log('short', 'any', True)
                        out.append(('done', 'ret', yes, TRUE))
                    if no is not None:
                        out.append(('cont', no))
                else:
                    if no is not None:
                        no.log('short', 'all', False)
                        out.append(('done', 'ret', no, FALSE))
                    if yes is not None:
                        out.append(('cont', yes))
            return out

        def on_none(s):
            s.log('exhausted', 'any' if is_any else 'all')
            return [('ret', s, FALSE if is_any else TRUE)]

        return _finish(consume(E, st, fid, it_ptr, on_item, on_none, ('anyall', fid)), [ip, cell])
    return m


REGISTRY[IT + 'any'] = _any_all(True)
MODEL_DOC[IT + 'any'] = 'true as soon as the predicate answers true for an item, false when exhausted'
REGISTRY[IT + 'all'] = _any_all(False)
MODEL_DOC[IT + 'all'] = 'false as soon as the predicate answers false for an item, true when exhausted'


@model(IT + 'for_each', 'calls the closure once per item, front to back')
def m_for_each(E, st, fid, t, args, dest_ty):
    if t['callee']['resolved'] == 'unresolved':
        # (unresolved in the generic MIR; the receiver may still be, in this inlining context, an iterator of core)
        r = E.dispatch_by_value(st, fid, t, args, dest_ty)
        return r if r is not None else E.user_call(st, fid, t, args, dest_ty)
    it_ptr, ip = _with_iter(E, st, fid, args[0])
    cell = pin(st, fid, ('ref', True, E.closure_cell(st, args[1])))

    def on_item(s, item):
        out = []
        for kind, s2, r in E.call_at(s, E.load(s, cell)[2], [item], fid):
            if kind == 'unwind':
                out.append(('done', 'unwind', s2, None))
            else:
                out.append(('cont', s2))
        return out

    def on_none(s):
        s.log('exhausted', 'for_each')
        return [('ret', s, UNIT)]

    return _finish(consume(E, st, fid, it_ptr, on_item, on_none, ('for_each', fid)), [ip, cell])


@model([IT + 'fold', '<core::iter::adapters::chain::Chain<A, B> as core::iter::traits::iterator::Iterator>::fold'],
       'acc = f(acc, item) once per item, front to back; returns the final acc')
def m_fold(E, st, fid, t, args, dest_ty):
    if t['callee']['resolved'] == 'unresolved':
        # (unresolved in the generic MIR; the receiver may still be, in this inlining context, an iterator of core)
        r = E.dispatch_by_value(st, fid, t, args, dest_ty)
        return r if r is not None else E.user_call(st, fid, t, args, dest_ty)
    it_ptr, ip = _with_iter(E, st, fid, args[0])
    acc = pin(st, fid, args[1])
    cell = pin(st, fid, ('ref', True, E.closure_cell(st, args[2])))

    def on_item(s, item):
        out = []
        a = E.load(s, acc)
        for kind, s2, r in E.call_at(s, E.load(s, cell)[2], [a, item], fid):
            if kind == 'unwind':
                out.append(('done', 'unwind', s2, None))
            else:
                E.store(s2, acc, r)
                out.append(('cont', s2))
        return out

    def on_none(s):
        return [('ret', s, E.load(s, acc))]

    return _finish(consume(E, st, fid, it_ptr, on_item, on_none, ('fold', fid)), [ip, acc, cell])


@model(IT + 'try_for_each', 'calls the closure per item until it returns a residual (Err/None/Break)')
def m_try_for_each(E, st, fid, t, args, dest_ty):
    it_ptr, ip = _with_iter(E, st, fid, args[0])
    cell = pin(st, fid, ('ref', True, E.closure_cell(st, args[1])))
    gs = E.gs_of(st, fid)

    def on_item(s, item):
        out = []
        for kind, s2, r in E.call_at(s, E.load(s, cell)[2], [item], fid):
            if kind == 'unwind':
                out.append(('done', 'unwind', s2, None))
                continue
            # Result<(), E> / Option<()>: variant 0 of Result (Ok) / variant 1 of Option (Some) continue
            for s3, cont, val in _try_cases(E, s2, r, fid):
                if cont:
                    out.append(('cont', s3))
                else:
                    out.append(('done', 'ret', s3, val))
        return out

    def on_none(s):
        return [('ret', s, _try_output(dest_ty))]

    return _finish(consume(E, st, fid, it_ptr, on_item, on_none, ('try_for_each', fid)), [ip, cell])


def _try_output(dest_ty):
    if dest_ty and dest_ty.get('k') == 'adt':
        if dest_ty['path'] == RESULT:
            return ('adt', RESULT, 0, (UNIT,))
        if dest_ty['path'] == OPTION:
            return some(UNIT)
    return ('opq', ('try_output',))


def _try_cases(E, st, r, fid):
    """-> (state, continues?, value-if-break)"""
    if r[0] == 'adt' and r[1] == RESULT:
        return [(st, r[2] == 0, r)]
    if r[0] == 'adt' and r[1] == OPTION:
        return [(st, r[2] == 1, r)]
    if r[0] == 'unk' and r[1].get('k') == 'adt' and r[1]['path'] == RESULT:
        a = st.fork()
        ety = r[1]['args'][1] if len(r[1]['args']) > 1 else None
        err = E.mk_unknown(a, ety, r[2] + ('err',), E.gs_of(st, fid))
        st.log('variant', r[2], 0)      # (the driver examines the result: Ok goes on, Err stops)
        a.log('variant', r[2], 1)
        return [(st, True, None), (a, False, ('adt', RESULT, 1, (err,)))]
    a = st.fork()
    return [(st, True, None), (a, False, ('opq', E.tag_of(r) + ('break',)))]


@model([IT + 'count', '<core::iter::adapters::chain::Chain<A, B> as core::iter::traits::iterator::Iterator>::count'],
       'consumes the iterator, returns the number of items')
def m_count(E, st, fid, t, args, dest_ty):
    it_ptr, ip = _with_iter(E, st, fid, args[0])

    def on_item(s, item):
        return [('cont', s)]

    E.view_zone = st.zone
    v0 = E.peek(st, it_ptr)
    mids0 = tuple(sorted(x[1] for x in E.sliceits_in(v0)))
    # where the counted iterator stood when the count began (its cursors / the containers it owns)
    at0 = (tuple((x[1], x[2], x[3]) for x in E.sliceits_in(v0)),
           tuple((m, st.maps[m].len) for m in E.byvalue_maps(v0) if m in st.maps))

    def on_none(s):
        u = fresh('u')
        s.zone.touch(u)
        # (the default count() of core: the number of items next() yielded until it answered None)
        s.log('counted', mids0, u, at0)
        return [('ret', s, I(u))]

    return _finish(consume(E, st, fid, it_ptr, on_item, on_none, ('count', fid)), [ip])


def iter_size_hint(E, st, ptr, fid):
    """size_hint() of the iterator stored at ptr -> list of (kind, state, (lower, upper))  (None: unknown iterator)"""
    v = E.load(st, ptr)
    if v[0] == 'ref':
        return iter_size_hint(E, st, v[2], fid)
    if v[0] == 'sliceit':
        n = ('slen', v[2], v[3])
        return [('ret', st, ('tuple', (n, some(n))))]
    if v[0] == 'adt' and v[1] == CHAIN:
        return chain_size_hint(E, st, ptr, fid)
    if v[0] == 'adt':
        bid = E.impl_index.get((IT[:-2], v[1], 'size_hint'))
        if bid is not None:
            body = E.facts.bodies[bid]
            return E.call_local(st, bid, [('ref', False, ptr)], E.gs_from_value(st, v, body))
    return None


def chain_size_hint(E, st, ptr, fid):
    """core's Chain::size_hint: the hints of the halves that are still present, added (saturating / checked)"""
    from .interp import add_values
    states = [(st, I(0), I(0), True)]
    for fld in (0, 1):
        nxt = []
        for s, lo, hi, known in states:
            h = E.load(s, _field_ptr(E, s, ptr, fld))
            if not (h[0] == 'adt' and h[1] == OPTION):
                return None
            if h[2] == 0:
                nxt.append((s, lo, hi, known))
                continue
            r = iter_size_hint(E, s, E.extend(s, _field_ptr(E, s, ptr, fld), 0), fid)
            if r is None:
                return None
            for kind, s2, hv in r:
                if kind != 'ret':
                    continue
                if not (hv[0] == 'tuple' and len(hv[1]) == 2):
                    return None
                l2, u2 = hv[1]
                up = u2[3][0] if (u2[0] == 'adt' and u2[1] == OPTION and u2[2] == 1) else None
                nxt.append((s2, add_values(lo, l2), add_values(hi, up) if (known and up is not None) else hi,
                            known and up is not None))
        states = nxt
    return [('ret', s, ('tuple', (lo, some(hi) if known else NONE))) for s, lo, hi, known in states]


@model('<core::iter::adapters::chain::Chain<A, B> as core::iter::traits::iterator::Iterator>::size_hint',
       'sum of the hints of both halves (saturating / checked)')
def m_chain_size_hint(E, st, fid, t, args, dest_ty):
    r = chain_size_hint(E, st, args[0][2], fid) if args[0][0] == 'ref' else None
    if r is not None:
        return r
    lo = fresh('u')
    st.zone.touch(lo)
    return ret(st, ('tuple', (I(lo), ('unk', freeze({'k': 'adt', 'path': OPTION, 'args': [{'k': 'prim', 'name': 'usize'}]}), ('hint',)))))


@model(IT + 'collect', 'FromIterator::from_iter(self)')
def m_collect(E, st, fid, t, args, dest_ty):
    eff = t['effects']
    cands = [b for b in eff.get('local', []) if b.endswith('::from_iter')]
    if len(cands) != 1:
        return E.opaque_call(st, fid, t, args, dest_ty)
    body = E.facts.bodies[cands[0]]
    gs = {}
    # const generics of the target type: from the destination type's const arguments
    if dest_ty and dest_ty.get('k') == 'adt':
        cargs = [a for a in dest_ty['args'] if a.get('k') == 'const']
        cnames = [g['name'] for g in body.generics if g['kind'] == 'const']
        for n, a in zip(cnames, cargs):
            gs[n] = E.const_term(st, a['v'], E.gs_of(st, fid))
    return E.call_local(st, body.id, [args[0]], gs)


def _fmt_argument(E, st, fid, t, args, dest_ty):
    """core::fmt::rt::Argument::new_display / new_debug / ...: wraps a reference to the value that will be
    formatted (by user Display/Debug code) -- recorded in the path log, otherwise an opaque call of core"""
    if args:
        st.log('fmtarg', E.rtag(st, args[0]))
        E.fmt_note(st, E.rtag(st, args[0]))
    return E.opaque_call(st, fid, t, args, dest_ty)


for _n in ('new_display', 'new_debug', 'new_lower_hex', 'new_upper_hex', 'new_lower_exp', 'new_upper_exp', 'new_octal',
           'new_binary', 'new_pointer'):
    REGISTRY["core::fmt::rt::Argument::<'_>::" + _n] = _fmt_argument
    MODEL_DOC["core::fmt::rt::Argument::<'_>::" + _n] = 'opaque; the value to be formatted is recorded in the path log'


def _fmt_entry(E, st, fid, t, args, dest_ty):
    """DebugList/DebugSet::entry(&item), DebugMap::entry(&k, &v) / key(&k) / value(&v): the items are formatted by
    their Debug impls (user code); which values those are is recorded in the path log"""
    for a in args[1:]:
        st.log('fmtarg', E.rtag(st, a))
        E.fmt_note(st, E.rtag(st, a))
    return E.opaque_call(st, fid, t, args, dest_ty)


for _n in ("core::fmt::builders::DebugList::<'a, 'b>::entry", "core::fmt::builders::DebugSet::<'a, 'b>::entry",
           "core::fmt::builders::DebugMap::<'a, 'b>::entry", "core::fmt::builders::DebugMap::<'a, 'b>::key",
           "core::fmt::builders::DebugMap::<'a, 'b>::value", "core::fmt::builders::DebugTuple::<'a, 'b>::field"):
    REGISTRY[_n] = _fmt_entry
    MODEL_DOC[_n] = 'opaque; the value(s) to be formatted are recorded in the path log'


def _entries(E, st, fid, t, args, dest_ty):
    """DebugList/DebugSet/DebugMap::entries: formats every item of the iterator (user Debug code)"""
    src = args[1]
    if src[0] == 'ref':
        # entries(&container): core turns its argument into an iterator first (`for e in entries`): the crate's own
        # `impl IntoIterator for &Container` is run
        try:
            held = E.load(st, src[2], quiet=True)
        except Exception:
            held = None
        path = None
        if held is not None and held[0] == 'map':
            path = st.maps[held[1]].name
        elif held is not None and held[0] == 'adt' and held[1] in E.container_paths:
            path = held[1]
        if path is not None:
            for b in E.facts.bodies.values():
                im = b.impl or {}
                sf = im.get('self') or {}
                if b.name == 'into_iter' and (im.get('trait') or '').endswith('IntoIterator') and sf.get('k') == 'ref' \
                        and bool(sf.get('mut')) == bool(src[1]) and (sf.get('to') or {}).get('path') == path:
                    mids = E.byvalue_maps(held)
                    gs = {}
                    for g in b.generics:
                        if g['kind'] == 'const' and mids:
                            gs[g['name']] = st.maps[mids[0]].cap
                    out = []
                    for kind, s2, v in E.call_local(st, b.id, [src], gs):
                        if kind != 'ret':
                            out.append((kind, s2, v))
                        else:
                            out.extend(_entries(E, s2, fid, t, [args[0], v], dest_ty))
                    return out
    it_ptr, ip = _with_iter(E, st, fid, args[1])

    # is the iterator handed over a faithful copy of the root's receiver (Debug of a lazy iterator through a clone)?
    same = None
    try:
        ent = getattr(E, 'root_entry', None)
        v = E.load(st, it_ptr)
        if ent is not None and ent[0]:
            v0 = ent[0][0]
            d = 0
            while v0 is not None and v0[0] == 'ref' and d < 4:
                v0 = E.load(ent[1], v0[2], quiet=True)
                d += 1
            from .specs import val_eq_z
            same = bool(val_eq_z(st.zone, v, v0))
    except Exception:
        same = None
    st.log('entries-over', same)

    def on_item(s, item):
        out = []
        s.log('user', 'fmt', (E.tag_of(item),))
        s.log('fmtarg', E.rtag(s, item))
        E.fmt_note(s, E.rtag(s, item))
        E.stats['user_calls'] += 1
        for u in escape(E, s, 'user', 'Debug::fmt'):
            out.append(('done',) + u)
        out.append(('cont', s))
        return out

    def on_none(s):
        return [('ret', s, args[0])]

    return _finish(consume(E, st, fid, it_ptr, on_item, on_none, ('entries', fid)), [ip])


for _n in ("core::fmt::builders::DebugList::<'a, 'b>::entries", "core::fmt::builders::DebugSet::<'a, 'b>::entries",
           "core::fmt::builders::DebugMap::<'a, 'b>::entries"):
    REGISTRY[_n] = _entries
    MODEL_DOC[_n] = 'pulls every item of the iterator and formats it through its Debug impl (user code, may unwind)'


# ------------------------------------------------------------------------------- MaybeUninit
def _mu_target(E, st, r, prim):
    if r[0] == 'ref' and r[2][0] == 'mu':
        return r[2][1], r[2][2]
    E.violate('MODEL', 'unmodelled', prim, 'MaybeUninit primitive applied to something that is not a tracked slot')
    return None


@model('core::mem::maybe_uninit::MaybeUninit::<T>::assume_init_ref', 'UNSAFE: obligation O2 (slot is live)')
def m_assume_init_ref(E, st, fid, t, args, dest_ty):
    tg = _mu_target(E, st, args[0], 'assume_init_ref')
    if tg is None:
        return ret(st, ('ref', False, ('opq', ('mu',))))
    mid, idx = tg
    E.check_live(st, mid, idx, 'assume_init_ref')
    return ret(st, ('ref', False, ('pair', mid, idx, ())))


@model('core::mem::maybe_uninit::MaybeUninit::<T>::assume_init_mut', 'UNSAFE: obligation O2 (slot is live)')
def m_assume_init_mut(E, st, fid, t, args, dest_ty):
    tg = _mu_target(E, st, args[0], 'assume_init_mut')
    if tg is None:
        return ret(st, ('ref', True, ('opq', ('mu',))))
    mid, idx = tg
    E.check_live(st, mid, idx, 'assume_init_mut')
    return ret(st, ('ref', True, ('pair', mid, idx, ())))


@model('core::mem::maybe_uninit::MaybeUninit::<T>::assume_init_read',
       'UNSAFE: obligation O2; the content is moved out: the slot is dead afterwards (O3)')
def m_assume_init_read(E, st, fid, t, args, dest_ty):
    tg = _mu_target(E, st, args[0], 'assume_init_read')
    if tg is None:
        return ret(st, ('opq', ('mu',)))
    mid, idx = tg
    v = E.slot_read(st, mid, idx, 'assume_init_read')
    return ret(st, v)


@model('core::mem::maybe_uninit::MaybeUninit::<T>::assume_init_drop',
       'UNSAFE: obligation O2; the content is dropped in place (user Drop may unwind after the slot died)')
def m_assume_init_drop(E, st, fid, t, args, dest_ty):
    tg = _mu_target(E, st, args[0], 'assume_init_drop')
    if tg is None:
        return ret(st, UNIT)
    mid, idx = tg
    v = E.slot_read(st, mid, idx, 'assume_init_drop')
    out = []
    for kind, s in E.drop_value(st, v, t['effects']):
        out.append((kind, s, UNIT if kind == 'ret' else None))
    return out


@model('core::mem::maybe_uninit::MaybeUninit::<T>::write',
       'overwrites without dropping: the slot must not be live (else the old element leaks)')
def m_mu_write(E, st, fid, t, args, dest_ty):
    tg = _mu_target(E, st, args[0], 'write')
    if tg is None:
        return ret(st, ('ref', True, ('opq', ('mu',))))
    mid, idx = tg
    out = []
    for s in E.slot_write(st, mid, idx, args[1], 'MaybeUninit::write'):
        out.append(('ret', s, ('ref', True, ('pair', mid, idx, ()))))
    return out


# raw-pointer spellings of the same four primitives (DESIGN.md §14.9): the pointer is a "tame" value
# that can only be consumed by read / write / drop_in_place; everything else done with it is reported
@model(['core::mem::maybe_uninit::MaybeUninit::<T>::as_ptr', 'core::mem::maybe_uninit::MaybeUninit::<T>::as_mut_ptr'],
       'raw pointer to the slot; only read / write / drop_in_place through it are modelled')
def m_mu_as_ptr(E, st, fid, t, args, dest_ty):
    tg = _mu_target(E, st, args[0], t['callee']['name'])
    if tg is None:
        return ret(st, ('opq', ('rawptr',)))
    return ret(st, ('rawslot', tg[0], tg[1], t['callee']['name'].endswith('_mut_ptr')))


@model(['core::ptr::mut_ptr::<impl *mut T>::cast', 'core::ptr::const_ptr::<impl *const T>::cast'],
       'pointer cast; *MaybeUninit<T> -> *T is the same address (MaybeUninit is repr(transparent))')
def m_ptr_cast(E, st, fid, t, args, dest_ty):
    v = args[0]
    if v[0] != 'rawslot':
        return E.opaque_call(st, fid, t, args, dest_ty)
    to = (dest_ty or {}).get('to') or {}
    if v[3] == 'outer' and not ty_is_mu(to):
        src_ty = None
        # only the cast to the wrapped type itself is understood
        rargs = t['callee'].get('rargs') or t['callee'].get('args') or []
        if len(rargs) >= 1 and ty_is_mu(rargs[0]) and rargs[0].get('args') and \
                json.dumps(rargs[0]['args'][0], sort_keys=True) == json.dumps(to, sort_keys=True):
            return ret(st, ('rawslot', v[1], v[2], bool((dest_ty or {}).get('mut'))))
        E.violate('MODEL', 'unmodelled', 'cast', 'raw slot pointer cast to an unrelated type')
        return ret(st, ('opq', ('rawptr',)))
    return ret(st, v)


def _raw_target(E, st, v, prim):
    if v[0] == 'rawslot':
        return v[1], v[2]
    E.violate('MODEL', 'unmodelled', prim, 'raw-pointer primitive applied to a pointer that is not a tracked slot pointer')
    return None


@model(['core::ptr::const_ptr::<impl *const T>::read', 'core::ptr::mut_ptr::<impl *mut T>::read', 'core::ptr::read'],
       'UNSAFE: ptr.read() of a slot pointer == assume_init_read (O2; the slot is dead afterwards)')
def m_ptr_read(E, st, fid, t, args, dest_ty):
    nm = t['callee']['name']
    tg = _raw_target(E, st, args[0], nm)
    if tg is None:
        return ret(st, ('opq', ('rawread',)))
    if args[0][3] == 'outer':
        # a bitwise copy of the MaybeUninit wrapper: ownership moves only when it is assume_init()ed
        E.cover.add((E.chain[-1], nm))
        return ret(st, ('mu_copy', tg[0], tg[1]))
    return ret(st, E.slot_read(st, tg[0], tg[1], nm))


@model('core::mem::maybe_uninit::MaybeUninit::<T>::assume_init',
       'UNSAFE: by-value assume_init of a wrapper: of a fresh MaybeUninit::new(v) it is v; of a copy read out of a slot it is the move-out of that slot (O2)')
def m_assume_init_value(E, st, fid, t, args, dest_ty):
    v = args[0]
    if v[0] == 'mu_init':
        E.cover.add((E.chain[-1], 'assume_init'))
        return ret(st, v[1])
    if v[0] == 'mu_copy':
        return ret(st, E.slot_read(st, v[1], v[2], 'assume_init'))
    if v[0] == 'mu_uninit' and dest_ty and dest_ty.get('k') == 'array' and ty_is_mu(dest_ty.get('elem') or {}):
        # MaybeUninit::<[MaybeUninit<_>; N]>::uninit().assume_init(): an array of uninitialised slots (the idiom
        # the standard library documents for this purpose)
        E.cover.add((E.chain[-1], 'assume_init'))
        return ret(st, ('uninit_arr',))
    E.violate('MODEL', 'unmodelled', 'assume_init', 'assume_init() of a MaybeUninit value of unknown origin')
    return ret(st, ('opq', ('assume_init',)))


@model('core::mem::drop', 'drops its argument (destructor / drop glue of the value)')
def m_mem_drop(E, st, fid, t, args, dest_ty):
    out = []
    for kind, s in E.drop_value(st, args[0], t['effects']):
        out.append((kind, s, UNIT if kind == 'ret' else None))
    return out


@model(['core::ptr::drop_in_place', 'core::ptr::mut_ptr::<impl *mut T>::drop_in_place'],
       'UNSAFE: drop_in_place of a slot pointer == assume_init_drop (O2)')
def m_drop_in_place(E, st, fid, t, args, dest_ty):
    tg = _raw_target(E, st, args[0], 'drop_in_place')
    if tg is None:
        return ret(st, UNIT)
    v = E.slot_read(st, tg[0], tg[1], 'drop_in_place')
    out = []
    for kind, s in E.drop_value(st, v, t['effects']):
        out.append((kind, s, UNIT if kind == 'ret' else None))
    return out


@model(['core::ptr::mut_ptr::<impl *mut T>::write', 'core::ptr::write'],
       'UNSAFE: ptr.write(v) to a slot pointer == MaybeUninit::write (the slot must not be live)')
def m_ptr_write(E, st, fid, t, args, dest_ty):
    tg = _raw_target(E, st, args[0], 'write')
    if tg is None:
        return ret(st, UNIT)
    out = []
    for s in E.slot_write(st, tg[0], tg[1], args[1], 'write'):
        out.append(('ret', s, UNIT))
    return out


@model('core::mem::maybe_uninit::MaybeUninit::<T>::uninit', 'an uninitialised value')
def m_mu_uninit(E, st, fid, t, args, dest_ty):
    return ret(st, ('mu_uninit',))


@model('core::mem::maybe_uninit::MaybeUninit::<T>::new', 'an initialised value')
def m_mu_new(E, st, fid, t, args, dest_ty):
    return ret(st, ('mu_init', args[0]))


def _default_of(E, st, ty, fid, t):
    """Default::default() of a type that the interpreter understands; None when it is user code"""
    if ty is None:
        return None
    k = ty.get('k')
    if k == 'prim':
        if ty['name'] == 'bool':
            return FALSE
        if ty['name'] in ('usize', 'u8', 'u16', 'u32', 'u64', 'u128', 'isize'):
            return I(0)
    if k == 'adt' and ty['path'] == OPTION:
        return NONE
    if k == 'adt' and ty['path'] in ('core::slice::iter::Iter', 'core::slice::iter::IterMut') and ty['args'] \
            and ty['args'][0].get('k') == 'adt' and ty['args'][0]['path'] == 'core::mem::maybe_uninit::MaybeUninit':
        return 'EMPTY-SLICEIT'
    if k == 'ref' and ty['to'].get('k') == 'slice' and ty['to']['elem'].get('k') == 'adt' \
            and ty['to']['elem']['path'] == 'core::mem::maybe_uninit::MaybeUninit':
        return 'EMPTY-SLICE'
    if k == 'tuple' and not ty['elems']:
        return UNIT
    return None


def _swap_slots(E, st, mid, i, j, prim):
    """exchange the contents of two slots of one container (both must be proved live, or it is the same slot)"""
    z = st.zone
    if z.entails_eq(i, j):
        return
    li, lj = slots.live(st, mid, i), slots.live(st, mid, j)
    E.oblig('O2', li is True and lj is True, prim,
            'swapping slots %s and %s of %s: both must hold live elements (%s)' % (i, j, mid, st.maps[mid].describe()),
            'unproven', sample='slots %s and %s live' % (i, j))
    ci, cj = slots.content(st, mid, i), slots.content(st, mid, j)
    slots.set_content(st, mid, i, cj)
    slots.set_content(st, mid, j, ci)
    st.maps[mid].examined = None
    st.log('swap', mid, i, j)


@model('core::slice::<impl [T]>::swap', 'exchanges two elements; panics when an index is out of bounds')
def m_slice_swap(E, st, fid, t, args, dest_ty):
    s = _slice_of(E, st, args[0])
    if s is None or args[1][0] != 'int' or args[2][0] != 'int':
        return E.opaque_call(st, fid, t, args, dest_ty)
    mid, lo, hi, _ = s
    out = []
    idx = []
    for a in (args[1], args[2]):
        i = E.add_terms(st, lo, a[1]) if not (isinstance(lo, int) and lo == 0) else a[1]
        if not st.zone.entails_lt(i, hi):
            out.extend(escape(E, st, 'core', 'swap: index out of bounds'))
        st.zone.add_lt(i, hi)
        idx.append(i)
    if not st.zone.sat:
        return out
    z = st.zone
    if not z.entails_eq(idx[0], idx[1]) and not z.entails_ne(idx[0], idx[1]):
        same = st.fork()
        same.zone.add_eq(idx[0], idx[1])
        if same.zone.sat:
            out.append(('ret', same, UNIT))
        E.assume_cond(st, ('Ne', idx[0], idx[1]), True)
        if not (z.entails_lt(idx[0], idx[1]) or z.entails_lt(idx[1], idx[0])):
            # neither order is known: both are explored
            lt = st.fork()
            lt.zone.add_lt(idx[0], idx[1])
            st.zone.add_lt(idx[1], idx[0])
            for s2 in (lt, st):
                if s2.zone.sat:
                    _swap_slots(E, s2, mid, idx[0], idx[1], 'swap')
                    out.append(('ret', s2, UNIT))
            return out
    _swap_slots(E, st, mid, idx[0], idx[1], 'swap')
    out.append(('ret', st, UNIT))
    return out


@model('core::mem::swap', 'exchanges the values behind the two references')
def m_mem_swap(E, st, fid, t, args, dest_ty):
    a, b = args[0], args[1]
    if a[0] != 'ref' or b[0] != 'ref':
        return E.opaque_call(st, fid, t, args, dest_ty)
    if a[2][0] == 'mu' and b[2][0] == 'mu' and a[2][1] == b[2][1]:
        _swap_slots(E, st, a[2][1], a[2][2], b[2][2], 'mem::swap')
        return ret(st, UNIT)
    if a[2][0] in ('mu', 'pairs', 'slice', 'len') or b[2][0] in ('mu', 'pairs', 'slice', 'len'):
        return E.opaque_call(st, fid, t, args, dest_ty)     # reported as unmodelled access to slot storage
    va, vb = E.load(st, a[2]), E.load(st, b[2])
    if va[0] == 'map' and vb[0] == 'map' and va[1] != vb[1]:
        # two whole containers exchanged (`mem::swap(self, &mut fresh)`): each place keeps its identity and takes
        # over the abstract state of the other (as for mem::replace)
        m1, m2 = st.maps.get(va[1]), st.maps.get(vb[1])
        for x, y, nx, ny in ((m1, m2, va[1], vb[1]), (m2, m1, vb[1], va[1])):
            if x is not None and y is not None and not x.dead and x.borrowed and not x.phantom \
                    and not y.dead and not y.borrowed and not y.phantom and y.len0 is None:
                for f in ('len', 'holes', 'extras', 'hole_rng', 'extra_rng', 'contents', 'examined', 'pending',
                          'asked', 'asked_carry', 'owned_extras'):
                    u, w = getattr(x, f), getattr(y, f)
                    setattr(x, f, w)
                    setattr(y, f, u)
                st.zone.add_eq(x.cap, y.cap)
                x.replaced = y.replaced or ny
                slots.aux_drop(st, lambda q: q in (('len', nx), ('len', ny)))
                st.log('replaced', nx, ny)
                return ret(st, UNIT)
    out = []
    for s1 in E.store(st, a[2], vb):
        for s2 in E.store(s1, b[2], va):
            s2.log('replace', E.tag_of(a), E.tag_of(vb), E.tag_of(va))
            out.append(('ret', s2, UNIT))
    return out


@model('core::mem::take', 'replaces *dest by Default::default() and returns the previous *dest')
def m_take(E, st, fid, t, args, dest_ty):
    d = args[0]
    if d[0] != 'ref':
        return E.opaque_call(st, fid, t, args, dest_ty)
    old = E.load(st, d[2])
    if old[0] == 'map' and old[1] in st.maps:
        # mem::take of a whole container: Default::default() is the crate's own impl (an empty container), then
        # the exchange is that of mem::replace
        bid = E.impl_index.get(('core::default::Default', st.maps[old[1]].name, 'default'))
        if bid is not None:
            body = E.facts.bodies[bid]
            gs = {g['name']: st.maps[old[1]].cap for g in body.generics if g['kind'] == 'const'}
            out = []
            for kind, s2, v in E.call_local(st, bid, [], gs):
                if kind != 'ret':
                    out.append((kind, s2, v))
                else:
                    out.extend(m_replace(E, s2, fid, t, [d, v], dest_ty))
            return out
    new = _default_of(E, st, dest_ty, fid, t)
    if new == 'EMPTY-SLICEIT':
        # the default slice iterator is empty: nothing can be reached through it
        if old[0] == 'sliceit':
            new = ('sliceit', old[1], old[3], old[3], old[4])
        else:
            new = None
    if new == 'EMPTY-SLICE':
        # the default slice is empty: nothing can be reached through it (kept at the end of the old one)
        if old[0] == 'ref' and old[2][0] == 'slice':
            new = ('ref', old[1], ('slice', old[2][1], old[2][3], old[2][3]))
        else:
            new = None
    if new is None:
        return E.opaque_call(st, fid, t, args, dest_ty)
    out = []
    for s in E.store(st, d[2], new):
        s.log('replace', E.tag_of(d), E.tag_of(new), E.tag_of(old))
        out.append(('ret', s, old))
    return out


@model(['core::clone::Clone::clone_from'], 'for a slice iterator: *self = source.clone() (a copy of the cursor pair)')
def m_clone_from_default(E, st, fid, t, args, dest_ty):
    d, srcv = args[0], args[1]
    if d[0] == 'ref' and srcv[0] == 'ref':
        try:
            sv = E.load(st, srcv[2], quiet=True)
        except Exception:
            sv = None
        if sv is not None and sv[0] == 'sliceit' and not sv[4]:
            return [('ret', s, UNIT) for s in E.store(st, d[2], sv)]
    return E.opaque_call(st, fid, t, args, dest_ty)


@model(["core::slice::iter::IterMut::<'a, T>::into_slice"], 'the not-yet-yielded elements, as a mutable slice')
def m_into_slice(E, st, fid, t, args, dest_ty):
    it = args[0]
    if it[0] == 'sliceit':
        return ret(st, ('ref', True, ('slice', it[1], it[2], it[3])))
    return E.opaque_call(st, fid, t, args, dest_ty)


# raw base pointer of the slot array + add(i) + copy_nonoverlapping(.., .., 1): a bitwise move of one slot
@model(['core::slice::<impl [T]>::as_mut_ptr', 'core::slice::<impl [T]>::as_ptr'],
       'raw pointer to the first slot of the storage; only add(i) and a one-element copy are modelled')
def m_slice_as_ptr(E, st, fid, t, args, dest_ty):
    s = _slice_of(E, st, args[0])
    if s is None:
        return E.opaque_call(st, fid, t, args, dest_ty)
    mid, lo, hi, mut = s
    return ret(st, ('rawbase', mid, lo, hi))


@model(['core::ptr::mut_ptr::<impl *mut T>::add', 'core::ptr::const_ptr::<impl *const T>::add'],
       'UNSAFE: pointer to element i; the offset must stay within the allocation (O1)')
def m_ptr_add(E, st, fid, t, args, dest_ty):
    b, i = args[0], args[1]
    if b[0] != 'rawbase' or i[0] != 'int':
        E.violate('MODEL', 'unmodelled', 'ptr::add', 'pointer arithmetic on a pointer that is not the tracked storage base')
        return ret(st, ('opq', ('rawptr',)))
    mid, lo, hi = b[1], b[2], b[3]
    idx = E.add_terms(st, lo, i[1]) if not (isinstance(lo, int) and lo == 0) else i[1]
    if E.struct_is_cap(st, mid, hi):
        E.check_index(st, mid, idx, 'add')
    else:
        ok = st.zone.entails_lt(idx, hi)
        E.oblig('O1', ok, 'add', 'pointer offset %s is not proved < slice end %s' % (idx, hi), 'unproven',
                sample='%s < %s' % (idx, hi))
        st.zone.add_lt(idx, hi)
    return ret(st, ('rawslot', mid, idx, 'outer'))


@model(['core::ptr::copy_nonoverlapping', 'core::intrinsics::copy_nonoverlapping', 'core::ptr::copy'],
       'UNSAFE: copy_nonoverlapping(src, dst, 1) between slot pointers = move the content of src into dst')
def m_copy_nonoverlapping(E, st, fid, t, args, dest_ty):
    src, dst, cnt = args[0], args[1], args[2]
    if src[0] != 'rawslot' or dst[0] != 'rawslot' or cnt != I(1):
        E.violate('MODEL', 'unmodelled', 'copy_nonoverlapping', 'only a one-element copy between tracked slot pointers is modelled (got %r, %r, %r)' % (src[:2], dst[:2], cnt))
        return ret(st, UNIT)
    if t['callee']['name'] == 'copy_nonoverlapping':
        E.oblig('O1', st.zone.entails_ne(src[2], dst[2]), 'copy_nonoverlapping',
                'source slot %s and destination slot %s are not proved distinct' % (src[2], dst[2]), 'unproven',
                sample='%s != %s' % (src[2], dst[2]))
    nm = t['callee']['name']
    v = E.slot_read(st, src[1], src[2], nm)
    out = []
    for s2 in E.slot_write(st, dst[1], dst[2], v, nm):
        out.append(('ret', s2, UNIT))
    return out


@model('core::mem::replace', 'stores src into *dest and returns the previous *dest')
def m_replace(E, st, fid, t, args, dest_ty):
    d = args[0]
    if d[0] != 'ref':
        return E.opaque_call(st, fid, t, args, dest_ty)
    old = E.load(st, d[2])
    nv = args[1]
    if d[2][0] == 'mu' and nv[0] in ('mu_uninit', 'mu_init'):
        # one slot exchanged as a MaybeUninit VALUE (safe code: the wrapper is plain data): what the slot held
        # travels with the value handed back -- as a wrapped element if the slot was live -- and the slot takes
        # the new wrapper (a live element must not be overwritten: it was just moved out; uninit over dead is a no-op)
        mid, idx = d[2][1], d[2][2]
        # (which element is taken must be known: where the slot may or may not be one whose content changed on this
        # path -- e.g. the slot the predicate of retain just saw -- the cases are told apart first)
        for j, _c in st.maps[mid].contents:
            z = st.zone
            if not z.entails_eq(idx, j) and not z.entails_ne(idx, j):
                out = []
                for rel in ('lt', 'eq', 'gt'):
                    s2 = st.fork()
                    if rel == 'lt':
                        s2.zone.add_lt(idx, j)
                    elif rel == 'eq':
                        s2.zone.add_eq(idx, j)
                    else:
                        s2.zone.add_lt(j, idx)
                    if s2.zone.sat:
                        out.extend(m_replace(E, s2, fid, t, args, dest_ty))
                return out
        lv = slots.live(st, mid, idx)
        if lv is True:
            oldv = ('mu_init', E.slot_read(st, mid, idx, 'mem::replace(slot)'))
        elif lv is False:
            oldv = ('mu_uninit',)
        else:
            raise Unproven('mem::replace on a slot that is not known to be live or dead')
        out = []
        for s in E.store(st, d[2], nv):
            out.append(('ret', s, oldv))
        return out
    if d[2][0] == 'pairs' and nv == ('uninit_arr',):
        # the whole slot array is moved out of a container and replaced by a fresh uninitialised one (safe code: an
        # array of MaybeUninit is plain data).  What was live in it travels with the array value: a carrier
        # container (len 0, the live slots as uncovered extras) stands for it until it is built into a container
        # again (Aggregate) -- or is lost, which the exit checks report as a leak
        m1 = st.maps[d[2][1]]
        z = st.zone
        if m1.holes or not slots.empty(z, m1.hole_rng) or m1.pending is not None:
            raise Unproven('slot array moved out of a container that has dead slots below len')
        c = E.new_map(st, m1.cap, m1.name, inv=False, length=0)
        mc = st.maps[c]
        if z.entails_eq(m1.len, 0):
            mc.extras, mc.extra_rng = m1.extras, m1.extra_rng
        elif not m1.extras and slots.empty(z, m1.extra_rng):
            mc.extra_rng = (0, m1.len)
            m1.hole_rng = (0, m1.len)       # (the container still counts len elements, none of which is there any more)
        else:
            raise Unproven('slot array moved out of a container with live slots on both sides of len')
        mc.contents = m1.contents
        mc.replaced = m1.replaced or d[2][1]
        mc.owned_extras = m1.owned_extras
        m1.extras, m1.extra_rng, m1.contents, m1.examined = (), (0, 0), (), None
        st.log('array-moved', d[2][1], c)
        return [('ret', st, ('arr_of', c))]
    if old[0] == 'map' and nv[0] == 'map' and old[1] != nv[1]:
        # a whole container exchanged in place (`mem::replace(self, fresh)`): the place keeps its identity (the
        # schemas and the exit checks speak about the receiver) and takes over the abstract state of the value
        # moved in; the value handed back carries the state the place had -- as for `*self = fresh` (_transplant)
        m1, m2 = st.maps.get(old[1]), st.maps.get(nv[1])
        if m1 is not None and m2 is not None and not m1.dead and m1.borrowed and not m1.phantom \
                and not m2.dead and not m2.borrowed and not m2.phantom and m2.len0 is None:
            for f in ('len', 'holes', 'extras', 'hole_rng', 'extra_rng', 'contents', 'examined', 'pending',
                      'asked', 'asked_carry', 'owned_extras'):
                a, b = getattr(m1, f), getattr(m2, f)
                setattr(m1, f, b)
                setattr(m2, f, a)
            st.zone.add_eq(m1.cap, m2.cap)
            m1.replaced = m2.replaced or nv[1]
            slots.aux_drop(st, lambda q: q in (('len', old[1]), ('len', nv[1])))
            st.log('replaced', old[1], nv[1])
            st.log('replace', E.tag_of(d), E.tag_of(nv), E.tag_of(old))
            return [('ret', st, nv)]
    out = []
    for s in E.store(st, d[2], nv):
        s.log('replace', E.tag_of(d), E.tag_of(nv), E.tag_of(old))
        out.append(('ret', s, old))
    return out


# ------------------------------------------------------------------------------- Option / Try
@model('core::option::Option::<T>::map', 'None -> None; Some(x) -> Some(f(x)), f called exactly once')
def m_option_map(E, st, fid, t, args, dest_ty):
    out = []
    for s, c in opt_cases(E, st, args[0], fid):
        if c is None:
            out.append(('ret', s, NONE))
        else:
            cell = E.closure_cell(s, args[1])
            for kind, s2, r in E.call_at(s, cell, [c[1]], fid):
                out.append((kind, s2, some(r) if kind == 'ret' else None))
    return out


def _call1(E, s, fid, f, args):
    cell = E.closure_cell(s, f)
    return E.call_at(s, cell, args, fid)


@model(['core::option::Option::<T>::is_some_and', 'core::option::Option::<T>::is_none_or'],
       'is_some_and: None -> false, Some(x) -> f(x);  is_none_or: None -> true, Some(x) -> f(x)')
def m_is_some_and(E, st, fid, t, args, dest_ty):
    dflt = TRUE if t['callee']['name'] == 'is_none_or' else FALSE
    out = []
    for s, c in opt_cases(E, st, args[0], fid):
        if c is None:
            out.append(('ret', s, dflt))
        else:
            out.extend(_call1(E, s, fid, args[1], [c[1]]))
    return out


@model(['core::option::Option::<T>::map_or'], 'None -> default; Some(x) -> f(x)')
def m_map_or(E, st, fid, t, args, dest_ty):
    out = []
    for s, c in opt_cases(E, st, args[0], fid):
        if c is None:
            out.append(('ret', s, args[1]))
        else:
            out.extend(_call1(E, s, fid, args[2], [c[1]]))
    return out


@model(['core::option::Option::<T>::map_or_else'], 'None -> default(); Some(x) -> f(x)')
def m_map_or_else(E, st, fid, t, args, dest_ty):
    out = []
    for s, c in opt_cases(E, st, args[0], fid):
        if c is None:
            out.extend(_call1(E, s, fid, args[1], []))
        else:
            out.extend(_call1(E, s, fid, args[2], [c[1]]))
    return out


@model(['core::option::Option::<T>::and_then'], 'None -> None; Some(x) -> f(x)')
def m_and_then(E, st, fid, t, args, dest_ty):
    out = []
    for s, c in opt_cases(E, st, args[0], fid):
        if c is None:
            out.append(('ret', s, NONE))
        else:
            out.extend(_call1(E, s, fid, args[1], [c[1]]))
    return out


@model(['core::option::Option::<T>::unwrap_or'], 'None -> default; Some(x) -> x')
def m_unwrap_or(E, st, fid, t, args, dest_ty):
    return [('ret', s, args[1] if c is None else c[1]) for s, c in opt_cases(E, st, args[0], fid)]


@model(['core::option::Option::<T>::unwrap_or_else'], 'None -> f(); Some(x) -> x')
def m_unwrap_or_else(E, st, fid, t, args, dest_ty):
    out = []
    for s, c in opt_cases(E, st, args[0], fid):
        if c is None:
            out.extend(_call1(E, s, fid, args[1], []))
        else:
            out.append(('ret', s, c[1]))
    return out


@model(['core::option::Option::<T>::or_else'], 'None -> f(); Some(x) -> Some(x)')
def m_or_else(E, st, fid, t, args, dest_ty):
    out = []
    for s, c in opt_cases(E, st, args[0], fid):
        if c is None:
            out.extend(_call1(E, s, fid, args[1], []))
        else:
            out.append(('ret', s, some(c[1])))
    return out


@model(['core::option::Option::<T>::filter'], 'Some(x) if p(&x) else None')
def m_opt_filter(E, st, fid, t, args, dest_ty):
    out = []
    for s, c in opt_cases(E, st, args[0], fid):
        if c is None:
            out.append(('ret', s, NONE))
            continue
        ip = pin(s, fid, c[1])
        for kind, s2, r in _call1(E, s, fid, args[1], [('ref', False, ip)]):
            if kind == 'unwind':
                out.append((kind, s2, None))
                continue
            x = E.load(s2, ip)
            unpin(s2, ip)
            yes, no = E.split_bool(s2, r, True)
            if yes is not None:
                out.append(('ret', yes, some(x)))
            if no is not None:
                out.append(('ret', no, NONE))
    return out


@model(['core::option::Option::<T>::zip'], 'Some((a, b)) iff both are Some')
def m_opt_zip(E, st, fid, t, args, dest_ty):
    out = []
    for s, ca in opt_cases(E, st, args[0], fid):
        for s2, cb in opt_cases(E, s, args[1], fid):
            out.append(('ret', s2, NONE if (ca is None or cb is None) else some(('tuple', (ca[1], cb[1])))))
    return out


@model(['core::option::Option::<T>::ok_or'], 'Some(x) -> Ok(x); None -> Err(e)')
def m_ok_or(E, st, fid, t, args, dest_ty):
    return [('ret', s, ('adt', RESULT, 1, (args[1],)) if c is None else ('adt', RESULT, 0, (c[1],)))
            for s, c in opt_cases(E, st, args[0], fid)]


@model('<core::option::Option<T> as core::clone::Clone>::clone', 'None -> None; Some(x) -> Some(x.clone())')
def m_option_clone(E, st, fid, t, args, dest_ty):
    r = args[0]
    if r[0] != 'ref' or r[2][0] not in ('L', 'O'):
        return E.opaque_call(st, fid, t, args, dest_ty)
    v = E.load(st, r[2])
    if not (v[0] == 'adt' and v[1] == OPTION):
        return E.opaque_call(st, fid, t, args, dest_ty)
    if v[2] == 0:
        return ret(st, NONE)
    inner = v[3][0]
    ip = E.extend(st, r[2], 0)
    CL = 'core::clone::Clone'
    if inner[0] == 'adt':
        bid = E.impl_index.get((CL, inner[1], 'clone'))
        if bid is not None:
            body = E.facts.bodies[bid]
            out = []
            for kind, s, val in E.call_local(st, bid, [('ref', False, ip)], E.gs_from_value(st, inner, body)):
                out.append((kind, s, some(val) if kind == 'ret' else None))
            return out
        if inner[1] == CHAIN:
            return [(k, s2, some(val) if k == 'ret' else None) for k, s2, val in m_chain_clone(E, st, fid, t, [('ref', False, ip)], None)]
    if inner[0] in ('sliceit', 'int', 'bool', 'ref'):
        return ret(st, some(inner))
    return E.opaque_call(st, fid, t, args, dest_ty)


@model(['core::option::Option::<T>::as_ref', 'core::option::Option::<T>::as_mut'], 'Option<&T> / Option<&mut T> view')
def m_opt_as_ref(E, st, fid, t, args, dest_ty):
    r = args[0]
    if r[0] != 'ref' or r[2][0] not in ('L', 'O'):
        return E.opaque_call(st, fid, t, args, dest_ty)
    v = E.load(st, r[2])
    out = []
    for s, c in opt_cases(E, st, v, fid):
        if c is None:
            out.append(('ret', s, NONE))
        else:
            E.store(s, r[2], some(c[1]))
            out.append(('ret', s, some(('ref', t['callee']['name'] == 'as_mut', E.extend(s, r[2], 0)))))
    return out


@model(['core::option::Option::<T>::take'], 'leaves None, returns the previous value')
def m_opt_take(E, st, fid, t, args, dest_ty):
    r = args[0]
    if r[0] != 'ref':
        return E.opaque_call(st, fid, t, args, dest_ty)
    old = E.load(st, r[2])
    out = []
    for s in E.store(st, r[2], NONE):
        out.append(('ret', s, old))
    return out


@model(['core::bool::<impl bool>::then_some'], 'true -> Some(v); false -> None')
def m_then_some(E, st, fid, t, args, dest_ty):
    yes, no = E.split_bool(st, args[0], True)
    out = []
    if yes is not None:
        out.append(('ret', yes, some(args[1])))
    if no is not None:
        for kind, s2 in E.drop_value(no, args[1], t['effects']):
            out.append((kind, s2, NONE if kind == 'ret' else None))
    return out


@model(['core::bool::<impl bool>::then'], 'true -> Some(f()); false -> None')
def m_then(E, st, fid, t, args, dest_ty):
    yes, no = E.split_bool(st, args[0], True)
    out = []
    if yes is not None:
        for kind, s2, r in _call1(E, yes, fid, args[1], []):
            out.append((kind, s2, some(r) if kind == 'ret' else None))
    if no is not None:
        out.append(('ret', no, NONE))
    return out


# tracked opaque slices (the caller's arrays of user data): peeling elements off keeps the positions
def _tracked_oslice(E, st, r):
    if r[0] != 'ref':
        return None
    v = E.peek(st, r[2])
    if v[0] == 'oarr':
        return v[1], 0, v[2], v[2]
    if v[0] == 'oslice' and len(v) == 5:
        return v[1], v[3], v[4], v[2]
    return None


@model(['core::slice::<impl [T]>::split_first', 'core::slice::<impl [T]>::split_last',
        'core::slice::<impl [T]>::first', 'core::slice::<impl [T]>::last',
        'core::slice::<impl [T]>::split_first_mut', 'core::slice::<impl [T]>::split_last_mut',
        'core::slice::<impl [T]>::first_mut', 'core::slice::<impl [T]>::last_mut'],
       'None when empty; otherwise the first/last element (and the rest of the slice)')
def m_split_first(E, st, fid, t, args, dest_ty):
    nm = t['callee']['name']
    mut = nm.endswith('_mut')
    if mut:
        nm = nm[:-4]
    tr = _tracked_oslice(E, st, args[0])
    if tr is None:
        sl = _slice_of(E, st, args[0])
        if sl is not None:
            # a slice of slot storage: the element reference and the rest keep their places in the container
            mid, lo, hi, _ = sl
            out = []
            a = st.fork()
            a.zone.add_lt(lo, hi)
            if a.zone.sat:
                if nm in ('split_first', 'first'):
                    eidx, nlo, nhi = lo, slots.plus(a, lo, 1), hi
                else:
                    nhi = fresh('p')
                    a.zone.add_eq(hi, nhi, 1)
                    eidx, nlo = nhi, lo
                a.log('at', mid, eidx)
                elem = ('ref', mut, ('mu', mid, eidx))
                if nm.startswith('split'):
                    out.append(('ret', a, some(('tuple', (elem, ('ref', mut, ('slice', mid, nlo, nhi)))))))
                else:
                    out.append(('ret', a, some(elem)))
            st.zone.add_le(hi, lo)
            if st.zone.sat:
                out.append(('ret', st, NONE))
            return out
        return E.opaque_call(st, fid, t, args, dest_ty)
    tg, lo, hi, ln = tr
    out = []
    a = st.fork()
    a.zone.add_lt(lo, hi)
    if a.zone.sat:
        first = nm in ('split_first', 'first')
        if first:
            eidx, nlo, nhi = lo, slots.plus(a, lo, 1), hi
        else:
            nhi = fresh('p')
            a.zone.add_eq(hi, nhi, 1)
            eidx, nlo = nhi, lo
        elem = ('ref', False, ('opq', ('elem', tg, eidx)))
        if nm.startswith('split'):
            oid = a.new_id('o')
            nln = fresh('u')
            a.zone.touch(nln)
            a.zone.add_le(nln, ln)
            if isinstance(nlo, int) and nlo == 0:
                a.zone.add_eq(nln, nhi)
            a.objs[oid] = ('oslice', tg, nln, nlo, nhi)
            out.append(('ret', a, some(('tuple', (elem, ('ref', False, ('O', oid, ())))))))
        else:
            out.append(('ret', a, some(elem)))
    st.zone.add_le(hi, lo)
    if st.zone.sat:
        out.append(('ret', st, NONE))
    return out


@model('core::option::Option::<T>::is_some', 'true iff Some')
def m_is_some(E, st, fid, t, args, dest_ty):
    v = args[0]
    if v[0] == 'ref':
        v = E.load(st, v[2])
    return [('ret', s, FALSE if c is None else TRUE) for s, c in opt_cases(E, st, v, fid)]


@model('core::option::Option::<T>::is_none', 'true iff None')
def m_is_none(E, st, fid, t, args, dest_ty):
    v = args[0]
    if v[0] == 'ref':
        v = E.load(st, v[2])
    return [('ret', s, TRUE if c is None else FALSE) for s, c in opt_cases(E, st, v, fid)]


@model(['core::option::Option::<T>::expect', 'core::option::Option::<T>::unwrap'],
       'Some(x) -> x; None -> panic')
def m_expect(E, st, fid, t, args, dest_ty):
    out = []
    for s, c in opt_cases(E, st, args[0], fid):
        if c is None:
            if not s.unwinding:
                s.unwinding = True
                s.log('panic', 'core', 'expect on None', E.panic_just(s))
                E.stats['escapes'] += 1
                out.append(('unwind', s, None))
        else:
            out.append(('ret', s, c[1]))
    return out


@model(['core::option::Option::<&T>::copied', 'core::option::Option::<&T>::cloned'], 'None -> None; Some(&x) -> Some(x)')
def m_opt_copied(E, st, fid, t, args, dest_ty):
    out = []
    for s, c in opt_cases(E, st, args[0], fid):
        if c is None:
            out.append(('ret', s, NONE))
        else:
            x = c[1]
            v = E.load(s, x[2]) if x[0] == 'ref' else x
            out.append(('ret', s, some(v)))
    return out


@model('<core::option::Option<T> as core::cmp::PartialEq>::eq',
       'None == None; Some(a) == Some(b) iff a == b (user PartialEq); mixed -> false')
def m_opt_eq(E, st, fid, t, args, dest_ty):
    a = E.load(st, args[0][2]) if args[0][0] == 'ref' else args[0]
    b = E.load(st, args[1][2]) if args[1][0] == 'ref' else args[1]
    out = []
    for s, ca in opt_cases(E, st, a, fid):
        for s2, cb in opt_cases(E, s, b, fid):
            if ca is None and cb is None:
                out.append(('ret', s2, TRUE))
            elif ca is None or cb is None:
                out.append(('ret', s2, FALSE))
            else:
                pe = E.plain_eq(s2, ca[1], cb[1])
                if pe is not None:
                    out.append(('ret', s2, pe))     # (plain data inside: core's own comparison, not user code)
                    continue
                ta, tb = E.rtag(s2, ca[1]), E.rtag(s2, cb[1])
                s2.log('user', 'core::cmp::PartialEq::eq', (ta, tb))
                E.stats['user_calls'] += 1
                out.extend(escape(E, s2, 'user', 'PartialEq::eq'))
                out.append(('ret', s2, ('boolu', ('eq', ta, tb))))
    return out


@model(['core::mem::needs_drop'],
       'whether T has drop glue: a fixed but unknown boolean per type; remembered by type, so that a path on which the '
       'PAIR type of the containers needs no drop may leave live elements behind (destroying them is a no-op)')
def m_needs_drop(E, st, fid, t, args, dest_ty):
    rargs = t['callee'].get('rargs') or t['callee'].get('args') or []
    ty = E.subst_ty(rargs[0], E.gs_of(st, fid)) if rargs else None
    return ret(st, ('boolu', ('needs_drop', freeze(ty) if ty is not None else None)))


@model(['core::tuple::<impl core::cmp::PartialEq for (U, T)>::eq'],
       'structural == of two pairs of plain data (size hints); anything else: the generic treatment')
def m_tuple_eq(E, st, fid, t, args, dest_ty):
    pe = E.plain_eq(st, args[0], args[1])
    if pe is not None:
        return ret(st, pe)
    return E.opaque_call(st, fid, t, args, dest_ty)


@model(['core::cmp::impls::<impl core::cmp::PartialEq<&B> for &A>::eq',
        'core::cmp::impls::<impl core::cmp::PartialEq<&B> for &A>::ne',
        '?core::cmp::PartialEq::eq', '?core::cmp::PartialEq::ne'],
       'user PartialEq on the referents: arbitrary answer, may unwind')
def m_ref_eq(E, st, fid, t, args, dest_ty):
    pe = E.plain_eq(st, args[0], args[1])
    if pe is not None:
        if t['callee']['name'] == 'ne':
            pe = FALSE if pe == TRUE else (TRUE if pe == FALSE else ('boolc', ('Not', pe[1])))
        return ret(st, pe)
    ta, tb = E.rtag(st, args[0]), E.rtag(st, args[1])
    neg = t['callee']['name'] == 'ne'
    st.log('user', 'core::cmp::PartialEq::eq', (ta, tb))
    E.stats['user_calls'] += 1
    out = escape(E, st, 'user', 'PartialEq::eq')
    tag = ('eq', ta, tb)
    out.append(('ret', st, ('boolu', ('not', tag) if neg else tag)))
    return out


@model('?core::borrow::Borrow::borrow',
       'user Borrow: an arbitrary reference (may unwind); its provenance records what was borrowed')
def m_borrow(E, st, fid, t, args, dest_ty):
    src = E.rtag(st, args[0])
    st.log('user', 'core::borrow::Borrow::borrow', (src,))
    E.stats['user_calls'] += 1
    out = escape(E, st, 'user', 'Borrow::borrow')
    out.append(('ret', st, ('ref', False, ('opq', ('borrow', src)))))
    return out


@model('<core::option::Option<T> as core::ops::try_trait::Try>::branch', 'Some(x) -> Continue(x); None -> Break(None)')
def m_opt_branch(E, st, fid, t, args, dest_ty):
    out = []
    for s, c in opt_cases(E, st, args[0], fid):
        if c is None:
            out.append(('ret', s, ('adt', CFLOW, 1, (NONE,))))
        else:
            out.append(('ret', s, ('adt', CFLOW, 0, (c[1],))))
    return out


@model('<core::option::Option<T> as core::ops::try_trait::FromResidual<core::option::Option<core::convert::Infallible>>>::from_residual',
       'None')
def m_opt_from_residual(E, st, fid, t, args, dest_ty):
    return ret(st, NONE)


def res_cases(E, st, v, fid):
    if v[0] == 'adt' and v[1] == RESULT:
        return [(st, v[2], v[3][0] if v[3] else UNIT)]
    if v[0] == 'unk' and v[1].get('k') == 'adt' and v[1]['path'] == RESULT:
        a = st.fork()
        gs = E.gs_of(st, fid)
        targs = v[1]['args']
        okv = E.mk_unknown(st, targs[0] if targs else None, v[2] + ('ok',), gs)
        errv = E.mk_unknown(a, targs[1] if len(targs) > 1 else None, v[2] + ('err',), gs)
        st.log('variant', v[2], 0)
        a.log('variant', v[2], 1)
        return [(st, 0, okv), (a, 1, errv)]
    a = st.fork()
    return [(st, 0, ('opq', E.tag_of(v) + ('ok',))), (a, 1, ('opq', E.tag_of(v) + ('err',)))]


@model('<core::result::Result<T, E> as core::ops::try_trait::Try>::branch', 'Ok(x) -> Continue(x); Err(e) -> Break(Err(e))')
def m_res_branch(E, st, fid, t, args, dest_ty):
    out = []
    for s, vi, x in res_cases(E, st, args[0], fid):
        if vi == 0:
            out.append(('ret', s, ('adt', CFLOW, 0, (x,))))
        else:
            out.append(('ret', s, ('adt', CFLOW, 1, (('adt', RESULT, 1, (x,)),))))
    return out


@model('<core::result::Result<T, F> as core::ops::try_trait::FromResidual<core::result::Result<core::convert::Infallible, E>>>::from_residual',
       'Err(From::from(e))')
def m_res_from_residual(E, st, fid, t, args, dest_ty):
    v = args[0]
    if v[0] == 'adt' and v[1] == RESULT and v[2] == 1:
        st.log('errprop', E.tag_of(v[3][0]))
        return ret(st, ('adt', RESULT, 1, (('opq', ('from', E.tag_of(v[3][0]))),)))
    return ret(st, ('adt', RESULT, 1, (('opq', ('from', E.tag_of(v))),)))


@model('core::cmp::Ord::min', 'the smaller of the two')
def m_min(E, st, fid, t, args, dest_ty):
    a, b = args[0], args[1]
    if a[0] in ('int', 'slen', 'aff') and b[0] in ('int', 'slen', 'aff') and (a[0] != 'int' or b[0] != 'int'):
        return ret(st, ('minof', a, b))
    r = fresh('r')
    st.zone.touch(r)
    for x in (a, b):
        if x[0] == 'int':
            st.zone.add_le(r, x[1])
        elif x[0] == 'slen' and st.zone.entails_eq(x[1], 0):
            st.zone.add_le(r, x[2])
    return ret(st, I(r))


@model(['core::num::<impl usize>::checked_sub'], 'Some(a - b) when a >= b, else None')
def m_checked_sub(E, st, fid, t, args, dest_ty):
    a, b = args[0], args[1]
    if a[0] != 'int' or b[0] != 'int':
        from .interp import to_aff, aff_add, aff_norm
        ta, tb = to_aff(a), to_aff(b)
        if ta is not None and tb is not None:
            # symbolic quantities (remaining lengths in size-hint code): Some(a - b) as an affine value, or None
            s1 = st.fork()
            out = []
            if all(x[0] in ('int', 'slen') for x in (a, b)):
                c = E.compare(s1, 'Ge', a, b)
                if c[0] == 'boolc':
                    ok1 = E.assume_cond(s1, c[1], True)
                    ok2 = E.assume_cond(st, c[1], False)
                    if ok1:
                        out.append(('ret', s1, some(aff_norm(aff_add(ta, tb, -1)))))
                    if ok2:
                        out.append(('ret', st, NONE))
                    return out
            return [('ret', s1, some(aff_norm(aff_add(ta, tb, -1)))), ('ret', st, NONE)]
        return E.opaque_call(st, fid, t, args, dest_ty)
    out = []
    s1 = st.fork()
    s1.zone.add_le(b[1], a[1])
    if s1.zone.sat:
        r = E.binop(s1, 'Sub', a, b)
        s1.log('cond', ('Ge', a[1], b[1]), True)
        out.append(('ret', s1, some(r)))
    st.zone.add_lt(a[1], b[1])
    if st.zone.sat:
        st.log('cond', ('Ge', a[1], b[1]), False)
        out.append(('ret', st, NONE))
    return out


@model(['core::num::<impl usize>::checked_add'], 'Some(a + b) unless it overflows')
def m_checked_add(E, st, fid, t, args, dest_ty):
    a, b = args[0], args[1]
    if a[0] != 'int' or b[0] != 'int':
        from .interp import add_values, to_aff
        if all(x[0] in ('int', 'slen', 'aff', 'sum', 'satsub', 'minof') for x in (a, b)):
            return [('ret', st.fork(), NONE), ('ret', st, some(add_values(a, b)))]
        return E.opaque_call(st, fid, t, args, dest_ty)
    s1 = st.fork()
    r = E.binop(s1, 'AddWithOverflow', a, b)
    out = [('ret', st, NONE)]
    if r[0] == 'tuple':
        ok, bad = E.split_bool(s1, r[1][1], False)
        if ok is not None:
            out.append(('ret', ok, some(r[1][0])))
    return out


@model(['core::num::<impl usize>::saturating_add'], 'min(usize::MAX, a + b)')
def m_saturating_add(E, st, fid, t, args, dest_ty):
    from .interp import add_values
    a, b = args[0], args[1]
    if a[0] == 'int' and b[0] == 'int' and (isinstance(a[1], int) or isinstance(b[1], int)):
        x, c = (a[1], b[1]) if isinstance(b[1], int) else (b[1], a[1])
        if isinstance(x, int) or (isinstance(c, int) and st.zone.has_strict_upper_term(x, c)):
            # a cursor or length stepped by a constant below a known bound: nothing saturates, the plain sum
            return ret(st, E.binop(st, 'Add', I(x), I(c)))
    return ret(st, add_values(a, b))


@model(['core::num::<impl usize>::wrapping_sub', 'core::num::<impl usize>::wrapping_add'], 'wrapping arithmetic')
def m_wrapping(E, st, fid, t, args, dest_ty):
    a, b = args[0], args[1]
    if a[0] != 'int' or b[0] != 'int':
        return E.opaque_call(st, fid, t, args, dest_ty)
    return ret(st, E.binop(st, 'Sub' if t['callee']['name'].endswith('sub') else 'Add', a, b))


@model(['core::cmp::Ord::max'], 'the larger of the two')
def m_max(E, st, fid, t, args, dest_ty):
    a, b = args[0], args[1]
    r = fresh('r')
    st.zone.touch(r)
    for x in (a, b):
        if x[0] == 'int':
            st.zone.add_le(x[1], r)
    return ret(st, I(r))


@model(['core::num::<impl usize>::saturating_sub'], 'max(0, a - b)')
def m_saturating_sub(E, st, fid, t, args, dest_ty):
    from .interp import to_aff, aff_add, aff_norm
    a, b = args[0], args[1]
    if a[0] == 'int' and b[0] == 'int' and not (isinstance(a[1], int) and isinstance(b[1], int)):
        z = st.zone
        if z.entails_le(b[1], a[1]):
            return ret(st, E.binop(st, 'Sub', a, b))        # (nothing saturates: the plain difference)
        if z.entails_lt(a[1], b[1]):
            return ret(st, I(0))
    ta, tb = to_aff(a), to_aff(b)
    if ta is None or tb is None:
        return E.opaque_call(st, fid, t, args, dest_ty)
    return ret(st, ('satsub', aff_norm(aff_add(ta, tb, -1))))
