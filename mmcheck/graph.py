import json
"""E3 rules that need only the crate-level facts and the effect closures:
CRATEGRAPH, REACH, TYPECLOSURE (C06) and CENSUS (C02/C13/C17)."""
from .facts import ty_mentions, MU, ty_is_mu

ALLOWED_CRATES_NOSTD = {'core', 'compiler_builtins'}


def V(rule, status, root, prim, what, span=None, config=None, chain=()):
    return {'rule': rule, 'status': status, 'root': root, 'chain': list(chain), 'primitive': prim,
            'what': what, 'span': span, 'config': config,
            'key': '%s|%s|%s|%s' % (rule, root, '>'.join(chain), prim), 'unwinding': False}


def crategraph(facts, expect_nostd):
    """-> (obligations, violations)"""
    out = []
    n = 0
    crates = set(facts.crate['crates'])
    cfg = facts.config
    if expect_nostd:
        n += 1
        # default features: nothing but core; with an optional dependency enabled: still no std/alloc
        extra = (crates - ALLOWED_CRATES_NOSTD) if cfg in ('A', 'B') else (crates & {'std', 'alloc'})
        if extra:
            out.append(V('CRATEGRAPH', 'refuted', '<crate>', 'crate graph',
                         'this no_std build links %s' % sorted(extra), config=cfg))
        n += 1
        if not facts.crate['no_std']:
            out.append(V('CRATEGRAPH', 'refuted', '<crate>', 'no_std',
                         'the crate is not #![no_std] in its default configuration', config=cfg))
    n += 1
    bad = [c for c in facts.crate.get('extern_crates', []) if c.split('::')[-1] in ('alloc', 'std')]
    if bad and expect_nostd:
        out.append(V('CRATEGRAPH', 'refuted', '<crate>', 'extern crate', 'extern crate %s' % bad, config=cfg))
    return n, out


def reach(facts):
    """no reachable instance allocates or lives outside core / the crate itself"""
    out = []
    n = 0
    inst = 0
    dyn = set()
    opaque = set()
    samples = []
    for b in facts.bodies.values():
        for bi, blk in enumerate(b.blocks):
            t = blk['term']
            if t['k'] not in ('call', 'drop'):
                continue
            eff = t['effects']
            n += 1
            inst += eff.get('instances', 0)
            prim = t['callee'].get('rdef') or t['callee']['def'] if t['k'] == 'call' else 'drop ' + t['ty_s']
            for a in eff.get('alloc', []):
                out.append(V('REACH', 'refuted', b.id, prim, 'reaches the allocator: %s' % a, t.get('span'), facts.config))
            for e in eff.get('extern', []):
                out.append(V('REACH', 'refuted', b.id, prim, 'reaches code outside core/micromap: %s' % e,
                             t.get('span'), facts.config))
            for e in eff.get('errors', []):
                out.append(V('REACH', 'unproven', b.id, prim, 'effect walk failed: %s' % e, t.get('span'), facts.config))
            if t['k'] == 'call' and t['callee'].get('resolved') == 'item':
                rc = t['callee'].get('rcrate')
                if rc not in ('core', facts.crate['name']):
                    out.append(V('REACH', 'refuted', b.id, prim, 'direct call into crate %s' % rc,
                                 t.get('span'), facts.config))
            dyn.update(eff.get('dyn', []))
            opaque.update(eff.get('opaque', []))
            if len(samples) < 5 and eff.get('instances', 0) > 5:
                samples.append({'site': '%s @ %s' % (b.id, t.get('span')), 'callee': prim,
                                'instances_walked': eff['instances'], 'alloc': eff.get('alloc', []),
                                'extern': eff.get('extern', []), 'status': 'discharged'})
    return n, out, {'instances_walked': inst, 'dyn_leaves': sorted(dyn), 'opaque_leaves': sorted(opaque),
                    'samples': samples}


def typeclosure(facts):
    out = []
    n = 0

    def bad(t):
        k = t.get('k')
        if k == 'rawptr':
            return 'raw pointer'
        if k == 'adt' and t.get('crate') in ('alloc', 'std'):
            return 'type from %s: %s' % (t['crate'], t['path'])
        if k in ('fnptr', 'dyn'):
            return k
        return None
    for path, a in facts.adts.items():
        for v in a['variants']:
            for f in v['fields']:
                n += 1
                why = []
                ty_mentions(f['ty'], lambda t: why.append(bad(t)) or False if bad(t) else False)
                why = [w for w in why if w]
                if why:
                    out.append(V('TYPECLOSURE', 'refuted', path, 'field ' + f['name'],
                                 'field type %s mentions %s' % (f['s'], why), a.get('span'), facts.config))
    # the element storage is an inline array of MaybeUninit
    conts = [p for p, a in facts.adts.items() if a['kind'] == 'Struct'
             and any(f['ty'].get('k') == 'array' and ty_is_mu(f['ty']['elem']) for f in a['variants'][0]['fields'])]
    n += 1
    if len(conts) != 1:
        out.append(V('TYPECLOSURE', 'unproven', '<crate>', 'storage',
                     'expected exactly one struct with an inline [MaybeUninit<_>; N] field, found %s' % conts,
                     None, facts.config))
    n += 1
    if facts.crate.get('statics'):
        out.append(V('TYPECLOSURE', 'refuted', '<crate>', 'static', 'statics: %s' % facts.crate['statics'],
                     None, facts.config))
    return n, out


UNSAFE_ALLOWED = {
    # the modelled unsafe primitives of core (each has a model with its obligation in models.py)
    'core::mem::maybe_uninit::MaybeUninit::<T>::assume_init_ref',
    'core::mem::maybe_uninit::MaybeUninit::<T>::assume_init_mut',
    'core::mem::maybe_uninit::MaybeUninit::<T>::assume_init_read',
    'core::mem::maybe_uninit::MaybeUninit::<T>::assume_init_drop',
    'core::slice::<impl [T]>::get_unchecked',
    'core::slice::<impl [T]>::get_unchecked_mut',
    # raw-pointer spellings of read / write / drop through a MaybeUninit::as_ptr()/as_mut_ptr() pointer
    'core::ptr::const_ptr::<impl *const T>::read', 'core::ptr::mut_ptr::<impl *mut T>::read', 'core::ptr::read',
    'core::ptr::drop_in_place', 'core::ptr::mut_ptr::<impl *mut T>::drop_in_place',
    'core::ptr::mut_ptr::<impl *mut T>::write', 'core::ptr::write',
    'core::ptr::mut_ptr::<impl *mut T>::add', 'core::ptr::const_ptr::<impl *const T>::add',
    'core::ptr::copy_nonoverlapping', 'core::intrinsics::copy_nonoverlapping', 'core::ptr::copy',
    'core::mem::maybe_uninit::MaybeUninit::<T>::assume_init',
}
TAME_SOURCES = {'core::mem::maybe_uninit::MaybeUninit::<T>::as_ptr', 'core::mem::maybe_uninit::MaybeUninit::<T>::as_mut_ptr',
                'core::slice::<impl [T]>::as_mut_ptr', 'core::slice::<impl [T]>::as_ptr',
                'core::ptr::mut_ptr::<impl *mut T>::add', 'core::ptr::const_ptr::<impl *const T>::add',
                'core::ptr::mut_ptr::<impl *mut T>::cast', 'core::ptr::const_ptr::<impl *const T>::cast'}
TAME_PASS = {'core::ptr::mut_ptr::<impl *mut T>::add', 'core::ptr::const_ptr::<impl *const T>::add',
             'core::ptr::mut_ptr::<impl *mut T>::cast', 'core::ptr::const_ptr::<impl *const T>::cast'}
PTR_CASTS = {'core::ptr::mut_ptr::<impl *mut T>::cast', 'core::ptr::const_ptr::<impl *const T>::cast'}
TAME_SINKS = {'core::ptr::const_ptr::<impl *const T>::read', 'core::ptr::mut_ptr::<impl *mut T>::read', 'core::ptr::read',
              'core::ptr::drop_in_place', 'core::ptr::mut_ptr::<impl *mut T>::drop_in_place',
              'core::ptr::mut_ptr::<impl *mut T>::write', 'core::ptr::write',
              'core::ptr::copy_nonoverlapping', 'core::intrinsics::copy_nonoverlapping', 'core::ptr::copy'}


def tame_raw_locals(b):
    """raw-pointer locals of body b that are produced only by MaybeUninit::as_ptr/as_mut_ptr (or copies of
    such) and consumed only by ptr read / write / drop_in_place (or copies): these are modelled exactly"""
    raw = {li for li, l in enumerate(b.locals) if ty_mentions(l['ty'], lambda t: t.get('k') == 'rawptr')}
    bad = set()

    def local_of(op):
        pl = op.get('copy') or op.get('move')
        if pl is not None and not pl['proj']:
            return pl['local']
        if pl is not None:
            return ('proj', pl['local'])
        return None
    derefd = set()     # raw locals that are dereferenced (`&*p`, `(*p).0`): tame only for MaybeUninit::as_ptr pointers

    def scan_place(pl):
        if pl is not None and pl['local'] in raw and pl['proj']:
            if pl['proj'][0] == 'deref':
                derefd.add(pl['local'])
            else:
                bad.add(pl['local'])

    def scan_op(o):
        scan_place(o.get('copy') or o.get('move'))
    for blk in b.blocks:
        for s in blk['stmts']:
            if s['k'] == 'assign':
                scan_place(s['place'])
                rv0 = s['rv']
                k0 = next(iter(rv0))
                v0 = rv0[k0]
                if k0 == 'use':
                    scan_op(v0)
                elif k0 in ('ref', 'rawptr'):
                    scan_place(v0['place'])
                elif k0 == 'discr':
                    scan_place(v0)
        t0 = blk['term']
        if t0['k'] == 'call':
            for o in t0['operands']:
                scan_op(o)
            scan_place(t0['dest'])
        elif t0['k'] == 'drop':
            scan_place(t0['place'])
    for blk in b.blocks:
        for s in blk['stmts']:
            if s['k'] != 'assign':
                continue
            dst = s['place']['local']
            rv = s['rv']
            k = next(iter(rv))
            srcs = []
            same_ptr_cast = False
            if k == 'cast' and rv['cast']['kind'] == 'PtrToPtr':
                pl0 = rv['cast']['op'].get('move') or rv['cast']['op'].get('copy')
                st0 = b.locals[pl0['local']]['ty'] if pl0 and not pl0['proj'] else None
                dt0 = rv['cast']['ty']
                same_ptr_cast = bool(st0 and st0.get('k') == 'rawptr' and dt0.get('k') == 'rawptr' and
                                     json.dumps(st0.get('to'), sort_keys=True) == json.dumps(dt0.get('to'), sort_keys=True))
            if k == 'use':
                srcs = [local_of(rv['use'])]
            elif same_ptr_cast:
                srcs = [local_of(rv['cast']['op'])]
            elif k == 'ref' and rv['ref']['place']['local'] in raw and rv['ref']['place']['proj'][:1] == ['deref'] \
                    and dst not in raw:
                continue        # `&*p` / `&(*p).0`: judged through `derefd` below
            else:
                # any other rvalue that defines or reads a raw local is not tame
                used = set()
                b._rv_uses(rv, used, set())
                for u in used & raw:
                    bad.add(u)
                if dst in raw and not ('rawptr' in rv and 'FakeForPtrMetadata' in rv['rawptr'].get('kind', '')):
                    bad.add(dst)
                continue
            for src in srcs:
                if isinstance(src, tuple):
                    if src[1] in raw:
                        bad.add(src[1])
                    if dst in raw:
                        bad.add(dst)
                elif src in raw and dst not in raw:
                    bad.add(src)
                elif dst in raw and src not in raw:
                    bad.add(dst)
        t = blk['term']
        if t['k'] == 'call':
            name = t['callee'].get('rdef') or t['callee']['def']
            d = t['dest']
            if d['local'] in raw and (d['proj'] or name not in TAME_SOURCES):
                bad.add(d['local'])
            if name in PTR_CASTS and d['local'] in raw and not d['proj']:
                # only *MaybeUninit<T> -> *T (same address, repr(transparent)) or an identity cast is understood
                src = local_of(t['operands'][0]) if t['operands'] else None
                st0 = b.locals[src]['ty'] if isinstance(src, int) else None
                dt0 = b.locals[d['local']]['ty']
                ok = False
                if st0 and st0.get('k') == 'rawptr' and dt0.get('k') == 'rawptr':
                    a, c = st0.get('to') or {}, dt0.get('to') or {}
                    same = json.dumps(a, sort_keys=True) == json.dumps(c, sort_keys=True)
                    unwrap = ty_is_mu(a) and a.get('args') and json.dumps(a['args'][0], sort_keys=True) == json.dumps(c, sort_keys=True)
                    ok = same or bool(unwrap)
                if not ok:
                    bad.add(d['local'])
            for i, o in enumerate(t['operands']):
                l = local_of(o)
                if isinstance(l, tuple):
                    if l[1] in raw:
                        bad.add(l[1])
                elif l in raw and not ((name in TAME_SINKS and i in (0, 1)) or (name in TAME_PASS and i == 0)):
                    bad.add(l)
        elif t['k'] in ('switch', 'assert', 'drop'):
            used = set()
            if t['k'] == 'switch':
                b._op_uses(t['discr'], used)
            elif t['k'] == 'assert':
                b._op_uses(t['cond'], used)
            for u in used & raw:
                bad.add(u)
    # a dereferenced raw pointer is tame only if it can only be the result of MaybeUninit::as_ptr / as_mut_ptr
    # (then `&*p` is assume_init_ref / assume_init_mut by another name, with the same obligation); a pointer into
    # the slot ARRAY (slice::as_mut_ptr, .add(i)) can alias other slots and stays reported
    inner = set()
    for blk in b.blocks:
        t = blk['term']
        if t['k'] == 'call':
            name = t['callee'].get('rdef') or t['callee']['def']
            d = t['dest']
            if d['local'] in raw and not d['proj'] and name in ('core::mem::maybe_uninit::MaybeUninit::<T>::as_ptr',
                                                               'core::mem::maybe_uninit::MaybeUninit::<T>::as_mut_ptr'):
                inner.add(d['local'])
    defs = {}
    for blk in b.blocks:
        for s in blk['stmts']:
            if s['k'] == 'assign' and s['place']['local'] in raw and not s['place']['proj']:
                defs.setdefault(s['place']['local'], []).append(s['rv'])
        t = blk['term']
        if t['k'] == 'call' and t['dest']['local'] in raw and not t['dest']['proj']:
            defs.setdefault(t['dest']['local'], []).append({'call': t['callee'].get('rdef') or t['callee']['def']})
    ch = True
    while ch:
        ch = False
        for l, ds in defs.items():
            if l in inner:
                continue
            ok = bool(ds)
            for rv in ds:
                if 'use' in rv or ('cast' in rv and rv['cast']['kind'] == 'PtrToPtr'):
                    src = local_of(rv['use'] if 'use' in rv else rv['cast']['op'])
                    if isinstance(src, tuple) or src not in inner:
                        ok = False
                else:
                    ok = False
            if ok:
                inner.add(l)
                ch = True
    for l in derefd:
        if l not in inner:
            bad.add(l)
    # copies propagate badness
    changed = True
    while changed:
        changed = False
        for blk in b.blocks:
            for s in blk['stmts']:
                if s['k'] == 'assign' and ('use' in s['rv'] or ('cast' in s['rv'] and s['rv']['cast']['kind'] == 'PtrToPtr')):
                    src = local_of(s['rv']['use'] if 'use' in s['rv'] else s['rv']['cast']['op'])
                    dst = s['place']['local']
                    if not isinstance(src, tuple) and src in raw and dst in raw:
                        if (src in bad) != (dst in bad):
                            bad.update((src, dst))
                            changed = True
    return raw - bad

FORBIDDEN_SUBSTR = ('core::mem::forget', 'core::mem::manually_drop', 'core::ptr::', 'core::mem::zeroed',
                    'core::mem::uninitialized', 'core::intrinsics::transmute', 'core::mem::transmute',
                    'core::cell::', 'core::mem::maybe_uninit::MaybeUninit::<T>::assume_init',
                    'core::mem::maybe_uninit::MaybeUninit::<T>::as_ptr',
                    'core::mem::maybe_uninit::MaybeUninit::<T>::as_mut_ptr',
                    'core::mem::maybe_uninit::MaybeUninit::<T>::zeroed',
                    )


def census(facts):
    """inventory of everything that could break the ownership argument of the slot interpreter"""
    out = []
    n = 0
    counts = {}
    for b in facts.bodies.values():
        tame = tame_raw_locals(b)
        for li, l in enumerate(b.locals):
            n += 1
            if li in tame:
                continue
            if ty_mentions(l['ty'], lambda t: t.get('k') == 'rawptr'):
                # compiler-generated raw pointers for slice-length reads are matched below
                uses = [s for blk in b.blocks for s in blk['stmts'] if s['k'] == 'assign'
                        and s['place']['local'] == li and 'rawptr' in s['rv']
                        and 'FakeForPtrMetadata' in s['rv']['rawptr']['kind']]
                if not uses:
                    out.append(V('CENSUS', 'refuted', b.id, 'raw pointer local _%d' % li,
                                 'a local of raw-pointer type %s' % l['s'], b.span, facts.config))
        for blk in b.blocks:
            for s in blk['stmts']:
                if s['k'] == 'assign' and 'cast' in s['rv']:
                    kind = s['rv']['cast']['kind']
                    n += 1
                    if kind == 'PtrToPtr':
                        # a cast between *mut T and *const T of the same pointee changes nothing
                        op = s['rv']['cast']['op']
                        pl = op.get('move') or op.get('copy')
                        src = b.locals[pl['local']]['ty'] if pl and not pl['proj'] else None
                        dst = s['rv']['cast']['ty']
                        if src and src.get('k') == 'rawptr' and dst.get('k') == 'rawptr' \
                                and json.dumps(src.get('to'), sort_keys=True) == json.dumps(dst.get('to'), sort_keys=True):
                            continue
                    if 'Transmute' in kind or 'PtrToPtr' in kind or 'Expose' in kind or 'FnPtrToPtr' in kind:
                        out.append(V('CENSUS', 'refuted', b.id, 'cast ' + kind, 'pointer / transmute cast',
                                     s.get('span'), facts.config))
            t = blk['term']
            if t['k'] != 'call':
                continue
            c = t['callee']
            name = c.get('rdef') or c['def']
            n += 1
            if c.get('unsafe') and not c.get('local_body'):
                if t.get('from_expansion') and name == "core::fmt::Arguments::<'a>::new":
                    continue   # emitted by format_args!: the compiler guarantees its contract
                counts[name] = counts.get(name, 0) + 1
                if name not in UNSAFE_ALLOWED:
                    out.append(V('CENSUS', 'unmodelled', b.id, name,
                                 'call of an unsafe core function that has no model/obligation', t.get('span'),
                                 facts.config))
            if any(x in name for x in FORBIDDEN_SUBSTR) and name not in UNSAFE_ALLOWED and name not in TAME_SOURCES \
                    and name != 'core::mem::replace':
                out.append(V('CENSUS', 'refuted', b.id, name,
                             'leak / duplication / aliasing primitive outside the modelled set', t.get('span'),
                             facts.config))
    # invariant-bearing fields are not public
    for path, a in facts.adts.items():
        for v in a['variants']:
            for f in v['fields']:
                t = f['ty']
                sensitive = (t.get('k') == 'array' and ty_is_mu(t['elem'])) or \
                    ty_mentions(t, lambda x: x.get('k') == 'adt' and x['path'] in
                                ('core::slice::iter::Iter', 'core::slice::iter::IterMut') and x['args']
                                and ty_is_mu(x['args'][0]))
                is_len = a['kind'] == 'Struct' and any(
                    g['ty'].get('k') == 'array' and ty_is_mu(g['ty']['elem']) for g in v['fields']) \
                    and t.get('k') == 'prim'
                is_index = path.endswith('OccupiedEntry')
                if sensitive or is_len or is_index:
                    n += 1
                    if f['pub'] and a['kind'] != 'Enum':
                        out.append(V('CENSUS', 'refuted', path, 'field ' + f['name'],
                                     'invariant-bearing field is public', a.get('span'), facts.config))
    return n, out, counts


def who_may_call(facts, callee_name, allowed_callers):
    """every call site of the crate-local function `callee_name` lies in one of the allowed callers"""
    out = []
    n = 0
    for b in facts.bodies.values():
        for bi, t in b.calls():
            lb = t['callee'].get('local_body')
            if lb and facts.bodies[lb].name == callee_name:
                n += 1
                if b.name not in allowed_callers:
                    out.append(V('MUSTPASS', 'refuted', b.id, callee_name,
                                 '%s is called from %s, which does not run the overlap pre-check' % (callee_name, b.name),
                                 t.get('span'), facts.config))
    if n == 0:
        out.append(V('MUSTPASS', 'unproven', '<crate>', callee_name, 'no call site of %s found' % callee_name, None,
                     facts.config))
        n = 1
    return n, out
