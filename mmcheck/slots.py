"""Slot exception algebra (DESIGN.md §2.2 item 2): liveness queries and the effect of
read / write / len-store events on the exceptions of one container.

Every function takes the State (for its zone) and the container id.  Functions that may have
to split the state on an undecided ordering return a list of states.
"""
from .zone import Term, fresh
from .state import MapState


class Unproven(Exception):
    """the exception shape left the supported fragment (reported as `unproven`)"""


def plus(st, a, c):
    """term for a + c"""
    if c == 0:
        return a
    if isinstance(a, int):
        return a + c
    z = st.zone
    # reuse an existing term that is known to equal a + c
    for v in z.vars:
        if v is not a and isinstance(v, Term) and v.name != '0' and z.entails_eq(v, a, c):
            return v
    t = fresh('p')
    z.add_eq(t, a, c)
    return t


# ---- auxiliary difference terms (DESIGN 14.14).  st.aux: ((hi_place, lo_place, d), ...) with d == value(hi) -
# value(lo) exactly, for PLACES ('len', mid) | ('loc', fid, local) | ('rs', ptr) / ('re', ptr) (start / end of the
# Range stored at ptr).  A zone relates two terms; "len - i == end - start" relates four, and is what a counted
# loop with a manual cursor (`for _ in 0..len0 { .. i += 1 | len -= 1 .. }`) needs for `i < len`.  With
# d1 = len - i and d2 = end - start as terms the invariant is the difference constraint d1 == d2.  Places (not
# terms) are the keys, so that the canonical renaming at loop heads cannot confuse two quantities that merely
# happen to be equal at some moment.
def exact_diff(z, a, b):
    """c with a == b + c entailed, else None"""
    for c in (0, 1, -1, 2, -2):
        if z.entails_eq(a, b, c):
            return c
    return None


def aux_find(st, hi, lo):
    for h, l, d in st.aux:
        if h == hi and l == lo:
            return d
    return None


def aux_set(st, hi, lo, d):
    st.aux = tuple(e for e in st.aux if not (e[0] == hi and e[1] == lo)) + ((hi, lo, d),)
    st.aux = st.aux[-6:]


def aux_drop(st, pred):
    if st.aux:
        st.aux = tuple(e for e in st.aux if not (pred(e[0]) or pred(e[1])))


def aux_shift(st, place, c):
    """the value at `place` has just become its old value + c"""
    if not st.aux or c == 0:
        return
    z = st.zone
    out = []
    for h, l, d in st.aux:
        dc = c if h == place else (-c if l == place else None)
        if dc is None:
            out.append((h, l, d))
            continue
        # all terms are unsigned: the shifted difference is kept only when it cannot be negative
        if isinstance(d, int):
            if d + dc >= 0:
                out.append((h, l, d + dc))
            continue
        if dc < 0 and not z.entails_le(-dc, d):
            continue
        out.append((h, l, plus(st, d, dc)))
    st.aux = tuple(out)


def in_range(z, idx, rng):
    lo, hi = rng
    return z.entails_le(lo, idx) and z.entails_lt(idx, hi)


def out_range(z, idx, rng):
    lo, hi = rng
    return z.entails_lt(idx, lo) or z.entails_le(hi, idx) or z.entails_le(hi, lo)


def empty(z, rng):
    return z.entails_le(rng[1], rng[0])


def live(st, mid, idx):
    """True / False / None (unknown)"""
    ms = st.maps[mid]
    z = st.zone
    for h in ms.holes:
        if z.entails_eq(idx, h):
            return False
    if in_range(z, idx, ms.hole_rng):
        return False
    for e in ms.extras:
        if z.entails_eq(idx, e):
            return True
    if in_range(z, idx, ms.extra_rng):
        return True
    if z.entails_lt(idx, ms.len):
        for h in ms.holes:
            if not z.entails_ne(idx, h):
                return None
        if not out_range(z, idx, ms.hole_rng):
            return None
        return True
    if z.entails_le(ms.len, idx):
        for e in ms.extras:
            if not z.entails_ne(idx, e):
                return None
        if not out_range(z, idx, ms.extra_rng):
            return None
        return False
    return None


def _add_hole(st, ms, idx):
    z = st.zone
    lo, hi = ms.hole_rng
    if z.entails_eq(idx, hi) and (z.entails_le(lo, hi)):
        ms.hole_rng = (lo, plus(st, idx, 1))
        return
    if empty(z, ms.hole_rng) and not ms.holes and False:
        pass
    if not empty(z, ms.hole_rng) and z.entails_eq(plus(st, idx, 1), lo):
        ms.hole_rng = (idx, hi)
        return
    if len(ms.holes) >= 2:
        raise Unproven('more than two point holes')
    ms.holes = ms.holes + (idx,)


def _add_extra(st, ms, idx):
    z = st.zone
    lo, hi = ms.extra_rng
    if z.entails_eq(idx, hi) and z.entails_le(lo, hi):
        ms.extra_rng = (lo, plus(st, idx, 1))
        return
    if not empty(z, ms.extra_rng) and z.entails_eq(plus(st, idx, 1), lo):
        ms.extra_rng = (idx, hi)
        return
    if len(ms.extras) >= 2:
        raise Unproven('more than two point extras')
    ms.extras = ms.extras + (idx,)


def _shrink_rng(st, rng, idx, what):
    """remove idx from a range at one of its ends"""
    z = st.zone
    lo, hi = rng
    if z.entails_eq(idx, lo):
        return (plus(st, lo, 1), hi)
    if z.entails_eq(plus(st, idx, 1), hi):
        return (lo, idx)
    raise Unproven('%s range would be split in the middle' % what)


# ---- "asked" positions (retain: the predicate runs at most once per element).  An UNDER-approximation of the
# slots holding an element for which the user callable has already been called: forgetting is always allowed.
def asked_possible(st, ms, idx):
    """may slot idx hold an element that was already asked?  (feasibility of lo <= idx < hi)"""
    for lo, hi in ms.asked or ():
        z2 = st.zone.copy()
        z2.add_le(lo, idx)
        z2.add_lt(idx, hi)
        if z2.sat:
            return (lo, hi)
    return None


def _asked_norm(st, ms, rs):
    """provably empty ranges carry no information (and would only blur the loop-head joins)"""
    z = st.zone
    ms.asked = tuple((lo, hi) for lo, hi in rs if not z.entails_le(hi, lo))[-2:]


def asked_add(st, ms, idx):
    z = st.zone
    rs = list(ms.asked or ())
    for n, (lo, hi) in enumerate(rs):
        if z.entails_eq(idx, hi):
            rs[n] = (lo, plus(st, idx, 1))
            return _asked_norm(st, ms, rs)
        if z.entails_eq(lo, idx, 1):
            rs[n] = (idx, hi)           # a pass from the back
            return _asked_norm(st, ms, rs)
    rs.append((idx, plus(st, idx, 1)))
    _asked_norm(st, ms, rs)


def asked_remove(st, ms, idx):
    if not ms.asked:
        return
    z = st.zone
    rs = []
    for lo, hi in ms.asked:
        if z.entails_lt(idx, lo) or z.entails_le(hi, idx) or z.entails_le(hi, lo):
            rs.append((lo, hi))
        elif z.entails_eq(hi, idx, 1):
            rs.append((lo, idx))        # (first: keeps the lower end, and with it the loop invariant lo == const)
        elif z.entails_eq(idx, lo):
            rs.append((plus(st, idx, 1), hi))
        # else: cannot tell where inside the range: forget the range
    _asked_norm(st, ms, rs)


def kill(st, mid, idx):
    """slot idx (proved live) is moved out / destroyed"""
    ms = st.maps[mid]
    z = st.zone
    if ms.asked is not None:
        inside = any(z.entails_le(lo, idx) and z.entails_lt(idx, hi) for lo, hi in ms.asked)
        ms.asked_carry = content(st, mid, idx)[0] if inside else None
        asked_remove(st, ms, idx)
    for e in ms.extras:
        if z.entails_eq(idx, e):
            ms.extras = tuple(x for x in ms.extras if x is not e)
            _forget_content(st, ms, idx)
            return
    if in_range(z, idx, ms.extra_rng):
        ms.extra_rng = _shrink_rng(st, ms.extra_rng, idx, 'extra')
        _forget_content(st, ms, idx)
        return
    _add_hole(st, ms, idx)
    _forget_content(st, ms, idx)


def fill(st, mid, idx):
    """slot idx (proved not live) is written"""
    ms = st.maps[mid]
    z = st.zone
    for h in ms.holes:
        if z.entails_eq(idx, h):
            ms.holes = tuple(x for x in ms.holes if x is not h)
            return
    if in_range(z, idx, ms.hole_rng):
        ms.hole_rng = _shrink_rng(st, ms.hole_rng, idx, 'hole')
        return
    _add_extra(st, ms, idx)


def _forget_content(st, ms, idx):
    z = st.zone
    ms.contents = tuple((i, t) for (i, t) in ms.contents if not z.entails_eq(i, idx))


def content(st, mid, idx):
    """(ktag, vtag) of the live slot idx"""
    ms = st.maps[mid]
    z = st.zone
    for (i, t) in ms.contents:
        if z.entails_eq(i, idx):
            return t
    for (i, t) in ms.contents:
        if not z.entails_ne(i, idx):
            return (('amb', mid), ('amb', mid))
    src = ms.replaced or mid      # (after `*place = new value` the untracked slots are the donor's, not the entry's)
    return (('stored', src, idx, 0), ('stored', src, idx, 1))


def set_content(st, mid, idx, tags, same_element=False):
    ms = st.maps[mid]
    z = st.zone
    if ms.asked is not None and not same_element:
        asked_remove(st, ms, idx)
        if ms.asked_carry is not None and tags[0] == ms.asked_carry:
            asked_add(st, ms, idx)      # an element that was asked before has been moved here
        ms.asked_carry = None
    keep = []
    for (i, t) in ms.contents:
        if z.entails_eq(i, idx):
            continue
        if not z.entails_ne(i, idx):
            t = (('amb', mid), ('amb', mid))
        keep.append((i, t))
    keep.append((idx, tags))
    ms.contents = tuple(keep[-4:])


# --------------------------------------------------------------------------- len stores
def set_len(st, mid, new):
    """store `new` into len; returns the list of resulting states (splits on undecided orders)"""
    ms = st.maps[mid]
    z = st.zone
    old = ms.len
    if z.entails_eq(new, old):
        ms.len = new
        return [st]
    if z.entails_eq(new, old, 1):
        return _grow_one(st, mid, new, old)
    if z.entails_eq(old, new, 1):
        return _shrink_one(st, mid, new, old)
    if z.entails_le(new, old):
        return _shrink(st, mid, new, old)
    if z.entails_le(old, new):
        return _grow(st, mid, new, old)
    out = []
    a = st.fork()
    a.zone.add_le(new, old)
    if a.zone.sat:
        out.extend(set_len(a, mid, new))
    b = st
    b.zone.add_lt(old, new)
    if b.zone.sat:
        out.extend(set_len(b, mid, new))
    return out


def _grow_one(st, mid, new, old):
    ms = st.maps[mid]
    lv = live(st, mid, old)
    if lv is True:
        kill_extra_only(st, ms, old)
    elif lv is False:
        ms.len = new
        _add_hole(st, ms, old)
        return [st]
    else:
        raise Unproven('len += 1 over a slot of unknown liveness')
    ms.len = new
    return [st]


def kill_extra_only(st, ms, idx):
    z = st.zone
    for e in ms.extras:
        if z.entails_eq(idx, e):
            ms.extras = tuple(x for x in ms.extras if x is not e)
            return
    if in_range(z, idx, ms.extra_rng):
        ms.extra_rng = _shrink_rng(st, ms.extra_rng, idx, 'extra')
        return
    raise Unproven('expected an extra at %s' % (idx,))


def _shrink_one(st, mid, new, old):
    """slot `new` leaves the prefix"""
    ms = st.maps[mid]
    z = st.zone
    # undecided point holes: split
    for h in ms.holes:
        if not z.entails_eq(h, new) and not z.entails_ne(h, new):
            a = st.fork()
            a.zone.add_eq(h, new)
            out = []
            if a.zone.sat:
                out.extend(_shrink_one(a, mid, new, old))
            st.zone.add_lt(h, new)
            if st.zone.sat:
                out.extend(_shrink_one(st, mid, new, old))
            return out
    for h in ms.holes:
        if z.entails_eq(h, new):
            ms.holes = tuple(x for x in ms.holes if x is not h)
            ms.len = new
            return [st]
    if in_range(z, new, ms.hole_rng):
        ms.hole_rng = _shrink_rng(st, ms.hole_rng, new, 'hole')
        ms.len = new
        return [st]
    if not out_range(z, new, ms.hole_rng):
        # split on membership at the upper end
        lo, hi = ms.hole_rng
        a = st.fork()
        a.zone.add_eq(hi, new, 1)
        out = []
        if a.zone.sat:
            out.extend(_shrink_one(a, mid, new, old))
        st.zone.add_le(hi, new)
        if st.zone.sat:
            out.extend(_shrink_one(st, mid, new, old))
        return out
    # a live slot becomes an extra
    ms.len = new
    _add_extra_front(st, ms, new)
    return [st]


def _add_extra_front(st, ms, idx):
    z = st.zone
    lo, hi = ms.extra_rng
    if not empty(z, ms.extra_rng) and z.entails_eq(lo, idx, 1):
        ms.extra_rng = (idx, hi)
        return
    _add_extra(st, ms, idx)


def _shrink(st, mid, new, old):
    """slots [new, old) leave the prefix"""
    ms = st.maps[mid]
    z = st.zone
    # point holes
    for h in ms.holes:
        if not z.entails_le(new, h) and not z.entails_lt(h, new):
            a = st.fork()
            a.zone.add_le(new, h)
            out = []
            if a.zone.sat:
                out.extend(_shrink(a, mid, new, old))
            st.zone.add_lt(h, new)
            if st.zone.sat:
                out.extend(_shrink(st, mid, new, old))
            return out
    lo, hi = ms.hole_rng
    if not empty(z, ms.hole_rng):
        if not z.entails_le(hi, new) and not z.entails_le(new, lo):
            # undecided: split on hi <= new
            if not z.entails_lt(new, hi):
                a = st.fork()
                a.zone.add_le(hi, new)
                out = []
                if a.zone.sat:
                    out.extend(_shrink(a, mid, new, old))
                st.zone.add_lt(new, hi)
                if st.zone.sat:
                    out.extend(_shrink(st, mid, new, old))
                return out
            if not z.entails_le(lo, new):
                a = st.fork()
                a.zone.add_le(new, lo)
                out = []
                if a.zone.sat:
                    out.extend(_shrink(a, mid, new, old))
                st.zone.add_lt(lo, new)
                if st.zone.sat:
                    out.extend(_shrink(st, mid, new, old))
                return out
    # now every hole is decided against `new`
    gone_pts = [h for h in ms.holes if z.entails_le(new, h)]
    ms.holes = tuple(h for h in ms.holes if not z.entails_le(new, h))
    gone_rng = None
    if not empty(z, ms.hole_rng):
        if z.entails_le(new, lo):
            gone_rng = (lo, hi)
            ms.hole_rng = (0, 0)
        elif z.entails_le(hi, new):
            pass
        else:  # lo < new < hi
            gone_rng = (new, hi)
            ms.hole_rng = (lo, new)
    # the newly uncovered region [new, old) minus vanished holes becomes extras
    e_lo, e_hi = new, old
    if gone_rng is not None:
        glo, ghi = gone_rng
        if z.entails_eq(glo, e_lo):
            e_lo = ghi
        elif z.entails_eq(ghi, e_hi):
            e_hi = glo
        else:
            raise Unproven('vanished hole range strictly inside the uncovered region')
    for h in gone_pts:
        if z.entails_eq(h, e_lo):
            e_lo = plus(st, e_lo, 1)
        elif z.entails_eq(plus(st, h, 1), e_hi):
            e_hi = h
        else:
            raise Unproven('vanished point hole strictly inside the uncovered region')
    ms.len = new
    if z.entails_le(e_hi, e_lo):
        return [st]
    xlo, xhi = ms.extra_rng
    if empty(z, ms.extra_rng):
        ms.extra_rng = (e_lo, e_hi)
    elif z.entails_eq(xlo, e_hi):
        ms.extra_rng = (e_lo, xhi)
    else:
        raise Unproven('two disjoint extra ranges')
    # point extras adjacent to the new range are left as they are
    return [st]


def _grow(st, mid, new, old):
    """slots [old, new) enter the prefix"""
    ms = st.maps[mid]
    z = st.zone
    if ms.extras:
        for e in ms.extras:
            if not z.entails_le(new, e):
                raise Unproven('len grows over a point extra')
    xlo, xhi = ms.extra_rng
    h_lo, h_hi = old, new      # part that is not backed by extras -> holes
    if not empty(z, ms.extra_rng):
        if not z.entails_eq(xlo, old):
            if z.entails_le(new, xlo):
                pass
            else:
                raise Unproven('len grows into the middle of an extra range')
        else:
            if z.entails_le(new, xhi):
                ms.extra_rng = (new, xhi)
                ms.len = new
                return [st]
            if z.entails_le(xhi, new):
                ms.extra_rng = (0, 0)
                h_lo = xhi
            else:
                a = st.fork()
                a.zone.add_le(new, xhi)
                out = []
                if a.zone.sat:
                    out.extend(_grow(a, mid, new, old))
                st.zone.add_lt(xhi, new)
                if st.zone.sat:
                    out.extend(_grow(st, mid, new, old))
                return out
    ms.len = new
    if z.entails_le(h_hi, h_lo):
        return [st]
    lo, hi = ms.hole_rng
    if empty(z, ms.hole_rng):
        ms.hole_rng = (h_lo, h_hi)
    elif z.entails_eq(hi, h_lo):
        ms.hole_rng = (lo, h_hi)
    else:
        raise Unproven('two disjoint hole ranges')
    return [st]


# --------------------------------------------------------------------------- invariants
def inv_problems(st, mid, allow_extras=False, handle_ranges=()):
    """list of reasons why INV (or SINV when allow_extras) fails for the container"""
    ms = st.maps[mid]
    z = st.zone
    out = []
    if not z.entails_le(ms.len, ms.cap):
        out.append(('CAP', 'len <= N is not entailed (len=%s, N=%s)' % (ms.len, ms.cap)))
    for h in ms.holes:
        if z.entails_lt(h, ms.len) or not z.entails_le(ms.len, h):
            out.append(('HOLE', 'slot %s below len=%s is dead' % (h, ms.len)))
    if not empty(z, ms.hole_rng):
        out.append(('HOLE', 'slots [%s,%s) below len=%s are dead' % (ms.hole_rng + (ms.len,))))
    if not allow_extras:
        for e in ms.extras:
            out.append(('LEAK', 'live slot %s is not covered by len=%s' % (e, ms.len)))
        if not empty(z, ms.extra_rng):
            lo, hi = ms.extra_rng
            owned = ms.owned_extras
            for (hlo, hhi) in handle_ranges:
                if z.entails_eq(hlo, lo) and z.entails_eq(hhi, hi):
                    owned = True
            if not owned:
                out.append(('LEAK', 'live slots [%s,%s) are not covered by len=%s and not owned by a handle'
                            % (lo, hi, ms.len)))
    return out
