use micromap::Map;
use std::cell::Cell;
use std::panic::{catch_unwind, AssertUnwindSafe};

thread_local! { static BOOM: Cell<i32> = Cell::new(-1); static DROPS: Cell<u32> = Cell::new(0); }

#[derive(PartialEq, Debug)]
struct P(i32, Box<i32>);
impl Clone for P {
    fn clone(&self) -> Self {
        if BOOM.with(|b| b.get()) == self.0 { panic!("clone boom"); }
        P(self.0, self.1.clone())
    }
}
impl Drop for P {
    fn drop(&mut self) {
        DROPS.with(|d| d.set(d.get() + 1));
        if BOOM.with(|b| b.get()) == 100 + self.0 { BOOM.with(|b| b.set(-1)); panic!("drop boom"); }
    }
}

#[test]
fn clone_panics_midway() {
    let mut m: Map<i32, P, 4> = Map::new();
    for i in 0..3 { m.insert(i, P(i, Box::new(i))); }
    BOOM.with(|b| b.set(1));
    let r = catch_unwind(AssertUnwindSafe(|| m.clone()));
    assert!(r.is_err());
    BOOM.with(|b| b.set(-1));
    assert_eq!(m.len(), 3);
}

#[test]
fn clear_drop_panics() {
    let mut m: Map<i32, P, 4> = Map::new();
    for i in 0..3 { m.insert(i, P(i, Box::new(i))); }
    BOOM.with(|b| b.set(101));
    let r = catch_unwind(AssertUnwindSafe(|| m.clear()));
    assert!(r.is_err());
    drop(m);
}

#[test]
fn retain_drop_panics() {
    let mut m: Map<i32, P, 4> = Map::new();
    for i in 0..3 { m.insert(i, P(i, Box::new(i))); }
    BOOM.with(|b| b.set(100));
    let r = catch_unwind(AssertUnwindSafe(|| m.retain(|k, _| *k != 0)));
    assert!(r.is_err());
    drop(m);
}
